"""C08 bounded complement: CHText (ak/color.py) behaves like the underlying str.

Model-based sequences of <= 8 public operations on a set of registers holding CHText objects.
The model of a text is a list of cells (char, colour-index) manipulated with plain list
operations (DESIGN appendix D.2) plus a *shadow* plain str manipulated with the real str
operations ("what the same operations give on a plain str"); the two are cross-checked against
each other (a disagreement is a bug of this harness, reported as a checker error).

Top-level clauses (property statement), evaluated after every step on every live register:
  text_matches_str      plain_text() (and the visible characters of str()/format()) == shadow str
  len_is_visible_chars  len(t) == number of cells
  colors_kept           reading str(t) with an independent SGR reader gives exactly the model cells
  canonical_eq          t == u  <=>  same cells, for all pairs of registers and for a text rebuilt
                        from the cells in a different way; all-default-coloured text == plain str,
                        otherwise != plain str; single-coloured text == the chunk ColorFmt gives
  index_errors          t[i] raises IndexError exactly where str does
Supporting (diagnostic only): representation invariant wf(t) on t.chunks / t.scrlen.

A case is {'ops': [...]}; operands: ['s',text] str, ['c',colour,text] chunk from ColorFmt,
['cs',colour,text,a,b] that chunk sliced [a:b], ['r',k] register k (mod number of registers),
['l',[operands]] list.  Colours: 0 default, 1 ColorFmt('RED'), 2 ColorFmt('GREEN', bold=True).
"""
import multiprocessing
import random
import signal
import sys

from ak import color as akcolor

ESC = '\x1b'
PARAM = ['', '31', '32;1']          # SGR parameters of the three colours (spec of C09, not read from the code)
CALL_BUDGET = 20_000                # python-level calls allowed inside one operation of the code under test (normal: < 10^3)
WALL_BACKSTOP_S = 60                # per case; only for loops that make no calls


class Budget(Exception):
    pass


class HarnessBug(Exception):
    pass


def _formats():
    return [akcolor.ColorFmt(None), akcolor.ColorFmt('RED'), akcolor.ColorFmt('GREEN', bold=True)]


def guarded(f):
    """run f() (code under test) with a deterministic budget of python calls.
    returns (value, exception-or-None)"""
    n = [0]

    def tracer(frame, event, arg):
        n[0] += 1
        if n[0] > CALL_BUDGET:
            raise Budget(f"more than {CALL_BUDGET} calls inside one operation")
        return None
    old = sys.gettrace()
    sys.settrace(tracer)
    try:
        return f(), None
    except Budget as e:
        return None, e
    except Exception as e:      # noqa - code under test may raise anything
        return None, e
    finally:
        sys.settrace(old)


def sgr_read(s):
    """independent reader of a string with SGR sequences -> ([(char, active parameters)], final state)"""
    cells, state, i = [], '', 0
    while i < len(s):
        if s[i] == ESC and s[i + 1:i + 2] == '[':
            j = s.find('m', i)
            if j < 0:
                cells.append((s[i], state))
                i += 1
                continue
            par = s[i + 2:j]
            state = '' if par == '0' else par
            i = j + 1
        else:
            cells.append((s[i], state))
            i += 1
    return cells, state


def runs(cells):
    """number of maximal same-colour runs"""
    return sum(1 for i, c in enumerate(cells) if i == 0 or cells[i - 1][1] != c[1])


class Reg:
    __slots__ = ('obj', 'cells', 'shadow')

    def __init__(self, obj, cells, shadow):
        self.obj, self.cells, self.shadow = obj, cells, shadow


class Fail(Exception):
    def __init__(self, clause, ksuf, text):
        super().__init__(text)
        self.clause, self.ksuf, self.text = clause, ksuf, text


# ------------------------------------------------------------------ operands
def realise(o, regs, F, feats):
    """operand description -> (real object, cells, shadow).  Runs real code (chunk construction and
    chunk slicing): call under `guarded`."""
    k = o[0]
    if k == 's':
        if not o[1]:
            feats.add('empty-operand')
        return o[1], [(c, 0) for c in o[1]], o[1]
    if k == 'c':
        if not o[2]:
            feats.add('empty-operand')
        return F[o[1]](o[2]), [(c, o[1]) for c in o[2]], o[2]
    if k == 'cs':
        t = o[2][slice(o[3], o[4])]
        if not t:
            feats.add('empty-operand')
        return F[o[1]](o[2])[slice(o[3], o[4])], [(c, o[1]) for c in t], t
    if k == 'r':
        if not regs:
            return '', [], ''
        r = regs[o[1] % len(regs)]
        if not r.cells:
            feats.add('empty-operand')
        return r.obj, list(r.cells), r.shadow
    if k == 'l':
        objs, cells, sh = [], [], ''
        for x in o[1]:
            ro, rc, rs = realise(x, regs, F, feats)
            objs.append(ro)
            cat(cells, rc, feats)
            sh += rs
        return objs, cells, sh
    raise HarnessBug(f"bad operand {o}")


def refers_to(o, regs, reg):
    if o[0] == 'r' and regs:
        return regs[o[1] % len(regs)] is reg
    if o[0] == 'l':
        return any(refers_to(x, regs, reg) for x in o[1])
    return False


def cat(left, right, feats):
    """left += right on cell lists, recording the merge event"""
    if left and right and left[-1][1] == right[0][1]:
        feats.add('merge-same-colour-neighbours')
        if left[-1][1] != 0:
            feats.add('merge-coloured-neighbours')
    left.extend(right)
    return left


def bind(regs, obj, cells, shadow):
    """new register for a result; if the real operation returned an object already held by a register
    the model follows the aliasing (nothing is demanded about identity)"""
    for r in regs:
        if r.obj is obj:
            if r.cells != cells:
                # same object must then already show the result cells; checked by check_all via r
                r_new = Reg(obj, cells, shadow)
                regs.append(r_new)
                return r_new
            regs.append(r)
            return r
    r = Reg(obj, cells, shadow)
    regs.append(r)
    return r


# ------------------------------------------------------------------ one step
def pad_of(spec_parts, n):
    fill, align, width, typ = spec_parts
    pad = max((width or 0) - n, 0)
    a = align or '<'
    left = 0 if a == '<' else (pad if a == '>' else pad // 2)
    return (fill if fill is not None else ' '), left, pad - left


def spec_str(spec_parts):
    fill, align, width, typ = spec_parts
    return (fill or '') + (align or '') + ('' if width is None else str(width)) + typ


def check_format(result, spec_parts, cells, shadow, opname):
    spec = spec_str(spec_parts)
    want = format(shadow, spec)                 # the same operation on the plain str
    fill, left, right = pad_of(spec_parts, len(shadow))
    if want != fill * left + shadow + fill * right:
        raise HarnessBug(f"format model disagrees with str for spec {spec!r} on {shadow!r}")
    if not isinstance(result, str):
        raise Fail('text_matches_str', opname + ':not-str', f"format(t, {spec!r}) returns {type(result).__name__}")
    got, _final = sgr_read(result)
    vis = ''.join(c for c, _ in got)
    if vis != want:
        raise Fail('text_matches_str', opname, f"format(<{describe(cells)}>, {spec!r}) shows {vis!r}, "
                   f"str gives {want!r}")
    body = got[left:left + len(cells)]
    if body != [(c, PARAM[i]) for c, i in cells]:
        raise Fail('colors_kept', opname, f"format(<{describe(cells)}>, {spec!r}) = {result!r}: colours of the "
                   f"text changed")


def describe(cells):
    out, i = [], 0
    while i < len(cells):
        j = i
        while j < len(cells) and cells[j][1] == cells[i][1]:
            j += 1
        out.append('%s%r' % ('.RG'[cells[i][1]], ''.join(c for c, _ in cells[i:j])))
        i = j
    return ' '.join(out) or "''"


def step(op, regs, F, feats):
    """execute one operation on the real objects and on the model; raises Fail"""
    kind = op[0]
    opname = kind

    def real(f):
        v, err = guarded(f)
        if isinstance(err, Budget):
            raise Fail('text_matches_str', opname + ':no-termination',
                       f"{op}: {err} (the same operation on str terminates)")
        return v, err

    def unexpected(err):
        raise Fail('text_matches_str', f"{opname}:exception-{type(err).__name__}",
                   f"{op} raises {type(err).__name__}: {err}; the same operation on str succeeds")

    def operand(o):
        v, err = real(lambda: realise(o, regs, F, feats))
        if err is not None:
            if isinstance(err, HarnessBug):
                raise err
            opn = 'operand-' + o[0]
            raise Fail('text_matches_str', f"{opn}:exception-{type(err).__name__}",
                       f"building operand {o} raises {type(err).__name__}: {err}")
        return v

    def reg(k):
        if not regs:
            raise HarnessBug("register operation before any register exists")
        return regs[k % len(regs)]

    if kind == 'new':
        parts = [operand(o) for o in op[1]]
        cells, sh = [], ''
        for _o, c, s in parts:
            cat(cells, c, feats)
            sh += s
        v, err = real(lambda: akcolor.CHText(*[p[0] for p in parts]))
        if err is not None:
            unexpected(err)
        bind(regs, v, cells, sh)
    elif kind == 'make':                         # the constructor from a chunk list (CHText.make): non-empty chunks only -
        parts = [operand(o) for o in op[1]]      # it keeps an empty chunk it is given, which nothing in the statement covers
        cells, sh = [], ''
        for _o, c, s in parts:
            cat(cells, c, feats)
            sh += s
        chunks = [p[0] for p in parts]
        before = list(chunks)
        v, err = real(lambda: akcolor.CHText.make(chunks))
        if err is not None:
            unexpected(err)
        if len(chunks) != len(before) or any(a is not b for a, b in zip(chunks, before)):
            raise Fail('text_matches_str', 'make:argument-changed', f"{op}: CHText.make changes the list it is given")
        feats.add('make')
        bind(regs, v, cells, sh)
    elif kind in ('add', 'iadd'):
        r = reg(op[1])
        if kind == 'iadd' and refers_to(op[2], regs, r):
            if op[2][0] == 'l':
                # t += [.., t, ..]: the operand changes while it is consumed; str has no analogue. not demanded
                feats.add('skipped-self-inside-list')
                return 'skip'
            opname = 'iadd-self'
            feats.add('iadd-self-alias')
        o, c, s = operand(op[2])
        if kind == 'add':
            v, err = real(lambda: r.obj + o)
            if err is not None:
                unexpected(err)
            bind(regs, v, cat(list(r.cells), c, feats), r.shadow + s)
        else:
            def f():
                x = r.obj
                x += o
                return x
            v, err = real(f)
            if err is not None:
                unexpected(err)
            ncells, nsh = cat(list(r.cells), c, feats), r.shadow + s
            if v is r.obj:
                r.cells, r.shadow = ncells, nsh       # in place: every alias sees it
            else:
                regs[regs.index(r)] = Reg(v, ncells, nsh)
    elif kind == 'radd':                         # operand + register  (str or chunk on the left)
        r = reg(op[2])
        o, c, s = operand(op[1])
        v, err = real(lambda: o + r.obj)
        if err is not None:
            unexpected(err)
        bind(regs, v, cat(list(c), list(r.cells), feats), s + r.shadow)
    elif kind == 'cadd':                         # chunk + operand, operand + chunk (no CHText involved before)
        o1, c1, s1 = operand(op[1])
        o2, c2, s2 = operand(op[2])
        v, err = real(lambda: o1 + o2)
        if err is not None:
            unexpected(err)
        bind(regs, v, cat(list(c1), list(c2), feats), s1 + s2)
    elif kind == 'join':
        so, sc, ss = operand(op[1])
        items = [operand(o) for o in op[2]]
        v, err = real(lambda: so.join([it[0] for it in items]))
        if err is not None:
            unexpected(err)
        cells = []
        for i, it in enumerate(items):
            if i:
                cat(cells, sc, feats)
            cat(cells, it[1], feats)
        bind(regs, v, cells, ss.join(it[2] for it in items))
        if len(items) >= 2:
            feats.add('join>=2')
    elif kind == 'idx':
        r = reg(op[1])
        i = op[2]
        try:
            want = r.shadow[i]
        except IndexError:
            want = None
        v, err = real(lambda: r.obj[i])
        if want is None:
            feats.add('index-out-of-range')
            if err is None:
                raise Fail('index_errors', 'no-IndexError', f"<{describe(r.cells)}>[{i}] returns "
                           f"{v!r:.60} where str raises IndexError")
            if not isinstance(err, IndexError):
                raise Fail('index_errors', 'other-exception', f"<{describe(r.cells)}>[{i}] raises "
                           f"{type(err).__name__} where str raises IndexError")
        else:
            if isinstance(err, IndexError):
                raise Fail('index_errors', 'spurious-IndexError', f"<{describe(r.cells)}>[{i}] raises IndexError; "
                           f"str gives {want!r}")
            if err is not None:
                unexpected(err)
            if i < 0:
                feats.add('negative-index')
            bind(regs, v, [r.cells[i]], want)
    elif kind == 'slice':
        r = reg(op[1])
        a, b_ = op[2], op[3]
        n = len(r.cells)
        if (a is not None and a < -n) or (b_ is not None and b_ < -n):
            feats.add('negative-out-of-range-bound')
        if (a is not None and a > n) or (b_ is not None and b_ > n):
            feats.add('positive-out-of-range-bound')
        if a is None or b_ is None:
            feats.add('None-bound')
        v, err = real(lambda: r.obj[a:b_])
        if err is not None:
            unexpected(err)
        cells = r.cells[a:b_]
        if runs(cells) >= 2:
            feats.add('slice-crossing-chunk-boundary')
        bind(regs, v, cells, r.shadow[a:b_])
    elif kind == 'fix':
        r = reg(op[1])
        n = op[2]
        v, err = real(lambda: r.obj.fixed_len(n))
        if err is not None:
            unexpected(err)
        cells = (list(r.cells) + [(' ', 0)] * n)[:n]
        feats.add('fixed_len-pad' if n > len(r.cells) else ('fixed_len-cut' if n < len(r.cells) else 'fixed_len-same'))
        bind(regs, v, cells, (r.shadow + ' ' * n)[:n])
    elif kind == 'cfix':                         # chunk.fixed_len
        o, c, s = operand(op[1])
        n = op[2]
        v, err = real(lambda: o.fixed_len(n))
        if err is not None:
            unexpected(err)
        bind(regs, v, (list(c) + [(' ', 0)] * n)[:n], (s + ' ' * n)[:n])
    elif kind == 'fmt':
        r = reg(op[1])
        spec_parts = op[2]
        spec = spec_str(spec_parts)
        how = op[3] if len(op) > 3 else 0
        if how == 0:
            v, err = real(lambda: format(r.obj, spec))
        elif how == 1:
            v, err = real(lambda: ('{:' + spec + '}').format(r.obj))
        else:
            v, err = real(lambda: r.obj.__format__(spec))
        if err is not None:
            unexpected(err)
        if (spec_parts[2] or 0) > len(r.cells):
            feats.add('format-pad')
        check_format(v, spec_parts, r.cells, r.shadow, opname)
    elif kind == 'cfmt':                         # format(chunk, spec)
        o, c, s = operand(op[1])
        spec_parts = op[2]
        v, err = real(lambda: format(o, spec_str(spec_parts)))
        if err is not None:
            unexpected(err)
        check_format(v, spec_parts, c, s, opname)
    else:
        raise HarnessBug(f"bad op {op}")
    return opname


# ------------------------------------------------------------------ clauses on the state
def wf_diag(t):
    try:
        ch = t.chunks
        if not all(c.text for c in ch):
            return 'empty chunk kept'
        if any(a.c_prefix == b.c_prefix for a, b in zip(ch, ch[1:])):
            return 'neighbouring chunks of the same colour'
        if t.scrlen != sum(len(c.text) for c in ch):
            return 'scrlen != sum of chunk lengths'
    except Exception as e:      # noqa
        return f'representation not readable ({type(e).__name__})'
    return None


def rebuild(cells, F, how):
    """assemble a text showing `cells` in a way unrelated to the history"""
    if how == 0:                                 # one character at a time, +=
        t = akcolor.CHText()
        for c, i in cells:
            t += F[i](c)
        return t
    parts, i = [], 0                             # one chunk per run, constructor; plain runs as str
    while i < len(cells):
        j = i
        while j < len(cells) and cells[j][1] == cells[i][1]:
            j += 1
        txt = ''.join(c for c, _ in cells[i:j])
        parts.append(txt if cells[i][1] == 0 else F[cells[i][1]](txt))
        i = j
    if how == 1:
        return akcolor.CHText(*parts)
    t = akcolor.CHText()                         # right to left with reflected +
    for p in reversed(parts):
        t = p + t
    return t


def check_all(regs, F, nstep, opname, diags):
    seen = []
    for r in regs:
        if any(r is s for s in seen):
            continue
        seen.append(r)
    for r in seen:
        if ''.join(c for c, _ in r.cells) != r.shadow:
            raise HarnessBug(f"cell model {r.cells} and shadow str {r.shadow!r} disagree")
        t = r.obj
        d = describe(r.cells)

        def obs():
            return t.plain_text(), len(t), str(t)
        v, err = guarded(obs)
        if err is not None:
            raise Fail('text_matches_str', f"observe:exception-{type(err).__name__}",
                       f"plain_text()/len()/str() of a text that should show <{d}> raises {type(err).__name__}: {err}")
        plain, ln, s = v
        if plain != r.shadow:
            raise Fail('text_matches_str', opname, f"plain_text() = {plain!r}, the same operations on str give "
                       f"{r.shadow!r}")
        if ln != len(r.cells):
            raise Fail('len_is_visible_chars', opname, f"len() = {ln} for a text showing {len(r.cells)} characters "
                       f"<{d}>")
        got, final = sgr_read(s) if isinstance(s, str) else (None, None)
        if got != [(c, PARAM[i]) for c, i in r.cells]:
            vis = ''.join(c for c, _ in got) if got is not None else None
            clause = 'colors_kept' if vis == r.shadow else 'text_matches_str'
            raise Fail(clause, opname, f"str() = {s!r} does not show <{d}>")
        w = wf_diag(t)
        if w:
            diags.add(f"wf violated after {opname}: {w} (text <{d}>)")
        # canonical equality
        how = nstep % 3

        def eqs():
            u = rebuild(r.cells, F, how)
            res = {'rebuilt': (t == u, u == t, t != u)}
            res['str'] = (t == r.shadow, r.shadow == t, t != r.shadow)
            if runs(r.cells) <= 1:
                k = r.cells[0][1] if r.cells else (nstep % 3)
                ch = F[k](r.shadow)
                res['chunk'] = (t == ch, ch == t)
            return res
        v, err = guarded(eqs)
        if err is not None:
            raise Fail('canonical_eq', f"exception-{type(err).__name__}", f"comparing a text showing <{d}> raises "
                       f"{type(err).__name__}: {err}")
        if v['rebuilt'] != (True, True, False):
            raise Fail('canonical_eq', 'same-cells-unequal',
                       f"text showing <{d}> built by the sequence != the same cells assembled "
                       f"{['char by char', 'by the constructor', 'by reflected +'][how]} (==, reflected ==, != : {v['rebuilt']})")
        default = all(i == 0 for _, i in r.cells)
        if default and v['str'] != (True, True, False):
            raise Fail('canonical_eq', 'default-text-vs-str', f"default-coloured text <{d}> == {r.shadow!r} gives "
                       f"{v['str']}")
        if not default and (v['str'][0] is True or v['str'][1] is True):
            raise Fail('canonical_eq', 'coloured-text-equals-str', f"coloured text <{d}> compares equal to the plain "
                       f"str {r.shadow!r}")
        if 'chunk' in v and v['chunk'] != (True, True):
            raise Fail('canonical_eq', 'text-vs-chunk', f"single-coloured text <{d}> != the chunk ColorFmt gives "
                       f"{v['chunk']}")
    # pairwise
    for i in range(len(seen)):
        for j in range(i + 1, len(seen)):
            a, b_ = seen[i], seen[j]
            v, err = guarded(lambda: (a.obj == b_.obj, b_.obj == a.obj))
            want = a.cells == b_.cells
            if err is not None:
                raise Fail('canonical_eq', f"exception-{type(err).__name__}", f"== raises {err!r}")
            if v != (want, want):
                raise Fail('canonical_eq', 'pair-equal-mismatch' if want else 'pair-unequal-mismatch',
                           f"<{describe(a.cells)}> == <{describe(b_.cells)}> gives {v}, expected {want}")


# ------------------------------------------------------------------ a whole case
def run_case(case, collect=None):
    """-> (feats, fail-or-None, diags);  fail = (clause, key-suffix, text, index of failing step)"""
    feats, diags = set(), set()
    backstop = False
    try:
        def on_alarm(*_a):
            raise Budget(f"wall-clock backstop of {WALL_BACKSTOP_S} s")
        old = signal.signal(signal.SIGALRM, on_alarm)
        signal.setitimer(signal.ITIMER_REAL, WALL_BACKSTOP_S)
        backstop = True
    except (ValueError, AttributeError, OSError):
        pass
    nstep = -1
    try:
        F, err = guarded(_formats)
        if err is not None:
            return feats, ('text_matches_str', 'ColorFmt-exception', f"ColorFmt construction raises {err!r}", 0), diags
        regs = []
        maxruns = 0
        for nstep, op in enumerate(case['ops']):
            opname = step(op, regs, F, feats)
            check_all(regs, F, nstep, opname, diags)
            maxruns = max([maxruns] + [runs(r.cells) for r in regs])
        if maxruns >= 2:
            feats.add('>=2-chunks')
        if collect is not None:
            collect.extend(regs)
        return feats, None, diags
    except Fail as f:
        return feats, (f.clause, f.ksuf, f.text, nstep), diags
    except Budget as e:
        return feats, ('text_matches_str', 'no-termination', f"step {nstep} {case['ops'][nstep]}: {e}", nstep), diags
    finally:
        if backstop:
            signal.setitimer(signal.ITIMER_REAL, 0)
            signal.signal(signal.SIGALRM, old)


def shrink(case, fail):
    """greedy: cut after the failing step, then drop earlier steps while the same key still fails"""
    key = (fail[0], fail[1])
    ops = list(case['ops'][:fail[3] + 1])
    budget = 40
    i = len(ops) - 2
    while i >= 0 and budget > 0:
        cand = ops[:i] + ops[i + 1:]
        budget -= 1
        try:
            _f, fl, _d = run_case({'ops': cand})
        except HarnessBug:
            fl = None
        if fl is not None and (fl[0], fl[1]) == key:
            ops = cand[:fl[3] + 1]
            fail = fl
            i = min(i, len(ops) - 1)
        i -= 1
    return {'ops': ops}, fail


# ------------------------------------------------------------------ generation
TEXT_POOL = ['', 'a', 'b', 'ab', 'xyz', 'Hello', 'a b', '  ', 'wörld!', 'qwerty', 'm', '[0m', '12']
FILLS = [None, None, 'x', '*', ' ', '0', '5', 's', '<', '^', '>', 'é', '-']


def g_text(rnd):
    return rnd.choice(TEXT_POOL) if rnd.random() < .8 else ''.join(rnd.choice('abcXYZ 1_') for _ in range(rnd.randint(0, 6)))


def g_bound(rnd):
    x = rnd.random()
    if x < .15:
        return None
    return rnd.randint(-9, 9)


def g_chunk(rnd):
    if rnd.random() < .12:
        return ['cs', rnd.randint(0, 2), g_text(rnd), g_bound(rnd), g_bound(rnd)]
    return ['c', rnd.randint(0, 2), g_text(rnd)]


def g_operand(rnd, nregs, allow_list=False):
    x = rnd.random()
    if nregs and x < .3:
        return ['r', rnd.randrange(nregs)]
    if x < .55:
        return ['s', g_text(rnd)]
    if allow_list and x < .65:
        return ['l', [g_operand(rnd, nregs) for _ in range(rnd.randint(0, 3))]]
    return g_chunk(rnd)


def g_spec(rnd):
    align = rnd.choice([None, '<', '>', '^'])
    fill = rnd.choice(FILLS) if align else None
    width = rnd.choice([None, None] + list(range(1, 13)))
    typ = rnd.choice(['', '', 's'])
    return [fill, align, width, typ]


def g_case(rnd, maxlen=8):
    ops = [['new', [g_chunk(rnd) if rnd.random() < .7 else ['s', g_text(rnd)] for _ in range(rnd.randint(1, 4))]]]
    n = 1
    for _ in range(rnd.randint(1, maxlen - 1)):
        x = rnd.random()
        if x < .10:
            ops.append(['new', [g_operand(rnd, n, True) for _ in range(rnd.randint(0, 3))]])
            n += 1
        elif x < .22:
            ops.append(['add', rnd.randrange(n), g_operand(rnd, n, True)])
            n += 1
        elif x < .36:
            k = rnd.randrange(n)
            o = ['r', k] if rnd.random() < .03 else g_operand(rnd, n, True)
            ops.append(['iadd', k, o])
        elif x < .44:
            ops.append(['radd', ['s', g_text(rnd)] if rnd.random() < .5 else g_chunk(rnd), rnd.randrange(n)])
            n += 1
        elif x < .49:
            a, b_ = (g_chunk(rnd), g_operand(rnd, n)) if rnd.random() < .6 else (['s', g_text(rnd)], g_chunk(rnd))
            ops.append(['cadd', a, b_])
            n += 1
        elif x < .57:
            sep = ['r', rnd.randrange(n)] if rnd.random() < .6 else g_chunk(rnd)
            ops.append(['join', sep, [g_operand(rnd, n) for _ in range(rnd.randint(0, 4))]])
            n += 1
        elif x < .66:
            ops.append(['idx', rnd.randrange(n), rnd.randint(-9, 9)])
            n += 1          # register only created when in range; references are taken mod the real count
        elif x < .84:
            ops.append(['slice', rnd.randrange(n), g_bound(rnd), g_bound(rnd)])
            n += 1
        elif x < .91:
            ops.append(['fix', rnd.randrange(n), rnd.randint(0, 10)])
            n += 1
        elif x < .93:
            ops.append(['cfix', g_chunk(rnd), rnd.randint(0, 8)])
            n += 1
        elif x < .99:
            ops.append(['fmt', rnd.randrange(n), g_spec(rnd), rnd.randrange(3)])
        else:
            ops.append(['cfmt', g_chunk(rnd), g_spec(rnd)])
    if rnd.random() < .15:                       # appended so that the cases drawn for a seed before this existed stay the same
        ops.append(['make', [['c', rnd.randrange(3), g_text(rnd) or 'q'] for _ in range(rnd.randint(0, 5))]])
        if rnd.random() < .6:
            ops.append(['slice', -1, g_bound(rnd), g_bound(rnd)])
    return {'ops': ops}


BASES = [
    [['c', 1, 'ab'], ['c', 2, 'c'], ['s', 'def']],
    [['s', 'a'], ['c', 1, 'b'], ['c', 1, 'c'], ['c', 0, 'd'], ['c', 2, 'ef']],
    [['c', 2, 'xyz']],
    [],
    [['c', 1, 'a'], ['c', 1, 'bc'], ['c', 0, 'd'], ['c', 0, 'e'], ['c', 0, 'f'], ['c', 2, 'g'], ['c', 1, 'h'], ['c', 1, 'i']],
    [['c', 0, 'ab'], ['c', 2, 'c'], ['c', 2, 'de']],
]


def exhaustive_cases(tier):
    """all index / slice bounds in -8..8 and None, all fixed_len 0..9, a grid of format specs, on fixed texts"""
    bounds = [None] + list(range(-8, 9))
    bases = BASES if tier == 'thorough' else BASES[:2] + BASES[3:]
    for base in bases:
        new = ['new', base]
        for a in bounds:
            for b_ in bounds:
                yield {'ops': [new, ['slice', 0, a, b_]]}
        for i in range(-8, 9):
            yield {'ops': [new, ['idx', 0, i]]}
        for n in range(0, 10):
            yield {'ops': [new, ['fix', 0, n]]}
        if all(o[0] == 'c' and o[2] for o in base) or not base:
            yield {'ops': [['make', base]]}
            for a in bounds[::3]:
                for b_ in bounds[::2]:
                    yield {'ops': [['make', base], ['slice', 0, a, b_]]}
        fills = [None, 'x', '0', '<', 's', '7'] if tier == 'thorough' else [None, 'x', '<']
        for align in (None, '<', '>', '^'):
            for fill in (fills if align else [None]):
                for width in [None] + list(range(1, 11)):
                    for typ in ('', 's'):
                        yield {'ops': [new, ['fmt', 0, [fill, align, width, typ], 0]]}


def _worker(args):
    seed, lo, hi = args
    out = []
    for k in range(lo, hi):
        rnd = random.Random(f"C08/{seed}/{k}")
        case = g_case(rnd)
        out.append(_eval(case))
    return out


_SHRUNK = {}


def _eval(case):
    try:
        feats, fail, diags = run_case(case)
        if fail is not None:
            k = (fail[0], fail[1])
            _SHRUNK[k] = _SHRUNK.get(k, 0) + 1
            if _SHRUNK[k] <= 3:          # per process: the first few witnesses of a class are minimised
                case, fail = shrink(case, fail)
            else:
                case = {'ops': case['ops'][:fail[3] + 1]}
        return case, sorted(feats), fail, sorted(diags), None
    except HarnessBug as e:
        return case, [], None, [], f"harness bug: {e} on {case}"
    except Exception as e:      # noqa
        return case, [], None, [], f"harness exception {type(e).__name__}: {e} on {case}"


REACH = ['merge-same-colour-neighbours', 'merge-coloured-neighbours', 'empty-operand', 'negative-out-of-range-bound',
         'slice-crossing-chunk-boundary', 'index-out-of-range', 'fixed_len-pad', 'fixed_len-cut', 'format-pad',
         'iadd-self-alias', 'None-bound', 'positive-out-of-range-bound', 'join>=2']


def _record(b, res):
    case, feats, fail, diags, err = res
    for f in feats:
        b.hit(f)
    b.case(case, nontrivial=('>=2-chunks' in feats and 'slice-crossing-chunk-boundary' in feats),
           sample=(b.evaluations % 211 == 0))
    if err:
        b.error(err)
    for d in diags:
        b.diag(d)
    if fail is not None:
        clause, ksuf, text, nstep = fail
        b.fail(f"C08.{clause}", f"C08.{clause}:{ksuf}", f"{text}  [ops: {case['ops']}]", case)


def run(b):
    n_seq = 4000 if b.tier == 'quick' else 60000
    for case in exhaustive_cases(b.tier):
        _record(b, _eval(case))
    nproc = 8 if b.tier == 'quick' else 14
    step_ = max(50, n_seq // (nproc * 8))
    jobs = [(b.seed, lo, min(lo + step_, n_seq)) for lo in range(0, n_seq, step_)]
    ctx = multiprocessing.get_context('fork')
    with ctx.Pool(nproc) as pool:
        for chunk in pool.imap(_worker, jobs):
            for res in chunk:
                _record(b, res)
    b.notes['sequences'] = n_seq
    b.require_reach(REACH)


def replay_case(case):
    try:
        feats, fail, diags = run_case(case)
    except HarnessBug as e:
        return True, [f"harness bug (not a violation): {e}"]
    if fail is None:
        return True, []
    return False, [f"{fail[0]} [{fail[1]}] at step {fail[3]}: {fail[2]}"]
