"""C10 bounded driver: rendering is pure (colours never change layout, output has no memory).

Top-level clauses (from the property statement), evaluated on every printable object kind of the
package (PrettyPrinter results, PPTable incl. enum columns with every modifier, PPRecordFmt, the
git history report over mocked repositories, console help h / hh):

  strip_equals_nocolor   CHText.strip_colors(str(coloured rendering)) == plain text of the no_color
                         rendering, character for character
  nocolor_has_no_escape  no ESC in the no_color rendering (whole, plain text, lines)
  lines_equal_whole      a result consumed line by line carries the same text (and the same colours)
                         as the result consumed whole, in either order of consumption - and every
                         time: one and the same result object consumed again (iterated twice, iterated
                         after an abandoned partial iteration, a paused iteration resumed after another
                         one, two iterations interleaved, str() / plain_text() in between) gives the
                         complete, identical text each time (the consumption schedule of a request)
  history_independent    a rendering requested after a history of other renderings, other colours
                         configurations (created, used, dropped, garbage collected), other palettes
                         and replaced global configurations equals the rendering of a freshly
                         constructed equal object under a freshly constructed equal configuration

"Configuration in force" = the configuration's syntax map at the moment of the request: the fresh
configuration is built from the same description and gets the same components registered (in the
order recorded by the syntax map) before the reference rendering is requested.

A *case* is a history: a list of steps
  ['conf', slot, spec]                  new ColorsConfig(spec['init'], no_color=spec['no_color'])
  ['reg', slot, palette_name, no_color] construct (= register + cache) a palette under the config
  ['render', slot, obj_name, route]     render the persistent object; all four clauses are checked
  ['render', slot, obj_name, route, schedule]
                                        the same + one more result object of the request is consumed
                                        according to `schedule`, a list of 'iter' (all lines), 'str',
                                        'plain', ['take', k] (k lines, the iterator stays paused),
                                        'resume' (the rest of the paused iterator), 'zip' (two iterators
                                        of the result advanced in lockstep)
  ['drop', slot]                        forget the config, gc.collect()
  ['global', slot]                      set_global_colors_config(config of the slot)
  ['churn', obj, route, seed, rounds]   create config / render / discard / gc.collect(), repeatedly
                                        (forces recycling of palette ids)
  ['churn_nocolor', obj, seed, rounds]  per round a brand-new palette class: coloured rendering under a
                                        throw-away config, then the no_color rendering (clause 2)
  ['fmt', obj_name, fmt]                table.fmt = fmt  (the fmt setter of the persistent PPTable; an empty
                                        columns / lines part of `fmt` keeps that part of the current format)
  ['rmcols', obj_name, [names]]         table.remove_columns(names)
The format is part of the object: after such steps the "freshly constructed equal object" of clause 4 is
a never rendered twin - constructed in the same way and given the same format changes, in the same order,
with no rendering before or in between (so nothing negotiated by a rendering under an earlier format -
column widths are negotiated from the visible records - can be carried into it).
The oracles are independent of the code under test: an own SGR scanner (strip_all / runs) and the
metamorphic reference "fresh equal object under fresh equal configuration", which is rendered in a
process forked from the pristine interpreter state (RefServer), so that state kept in classes or
module globals by earlier renderings cannot leak into the reference.
"""
import collections
import contextlib
import copy
import gc
import io
import itertools
import json
import logging
import multiprocessing
import os
import pickle
import random
import re
import signal
import struct
import sys
import types
import weakref

from ak import color as akc
from ak.color import CHText, ColorsConfig, ConfColor
from ak.ppobj import PPTable, PPRecordFmt, PPEnumFieldType, PrettyPrinter
from ak import hdoc as akh
from ak import mcaller as akm
from ak import ghist as akg

try:                                     # the repo's own in-memory git mock, if importable
    from tests import mock_git as _mock_git
    _mock_git._MockedGitCommit._BASE_TIME = 15000 * 86400     # random at import time otherwise
except Exception:                        # noqa
    _mock_git = None

ESC = '\x1b'
HISTORY_BUDGET_S = 60
REFERENCE_BUDGET_S = 20

# --------------------------------------------------------------------------------------------
# independent SGR scanner

_SGR = re.compile('\x1b\\[([0-9;:]*)m')
_SGR_256 = re.compile('\x1b\\[[0-9;]*[0-9]:[0-9:;]*m')


def strip_all(s):
    """remove every SGR sequence, whatever separators it uses"""
    return _SGR.sub('', s)


def runs(s):
    """[(attributes in force, text)] with neighbouring runs of equal attributes merged"""
    out = []
    state = ()
    pos = 0
    for m in _SGR.finditer(s):
        if m.start() > pos:
            txt = s[pos:m.start()]
            if out and out[-1][0] == state:
                out[-1] = (state, out[-1][1] + txt)
            else:
                out.append((state, txt))
        for p in m.group(1).split(';'):
            if p in ('', '0'):
                state = ()
            else:
                state = state + (p,)
        pos = m.end()
    if pos < len(s):
        txt = s[pos:]
        if out and out[-1][0] == state:
            out[-1] = (state, out[-1][1] + txt)
        else:
            out.append((state, txt))
    return out


def first_diff(a, b):
    n = min(len(a), len(b))
    i = 0
    while i < n and a[i] == b[i]:
        i += 1
    lo = max(0, i - 12)
    return f"at {i}: {a[lo:i + 24]!r} vs {b[lo:i + 24]!r}"


# --------------------------------------------------------------------------------------------
# palettes of the driver ("other palettes")

class AltPPPalette(PrettyPrinter.PPPalette):
    SYNTAX_DEFAULTS = {'PPX.NUM': 'MAGENTA:underline'}
    number = ConfColor('PPX.NUM')
    keyword = ConfColor('WARN')


class AltEnumPalette(PPEnumFieldType.EnumPalette):
    SYNTAX_DEFAULTS = {'ENUMX.GOOD': 'GREEN', 'ENUMX.WARN': 'MAGENTA:bold'}
    name_good = ConfColor('ENUMX.GOOD')
    name_warn = ConfColor('ENUMX.WARN')


class AltTablePalette(PPTable.TablePalette):
    border = ConfColor('TABLE.WARN')
    SUB_PALETTES_MAP = {PPEnumFieldType.EnumPalette: AltEnumPalette}


class AltRecPalette(PPRecordFmt.PPRecordPalette):
    SUB_PALETTES_MAP = {PPEnumFieldType.EnumPalette: AltEnumPalette}


class AltGHistPalette(akg.GHistReport.GHistPalette):
    hash = ConfColor('NUMBER')
    repo = ConfColor('KEYWORD')


class AltHCmdPalette(akh.HCommand.HCmdPalette):
    tag = ConfColor('NAME')
    attr = ConfColor('KEYWORD')


BASE_PAL = {
    'pp': PrettyPrinter.PPPalette,
    'table': PPTable.TablePalette,
    'recfmt': PPRecordFmt.PPRecordPalette,
    'ghist': akg.GHistReport.GHistPalette,
    'help': akh.HCommand.HCmdPalette,
}
ALT_PAL = {
    'pp': AltPPPalette,
    'table': AltTablePalette,
    'recfmt': AltRecPalette,
    'ghist': AltGHistPalette,
    'help': AltHCmdPalette,
}
from ak.ppobj import FieldType as _FieldType, _DefaultTitleFieldType as _DTFT   # noqa: E402

PALETTES = {
    'PPPalette': PrettyPrinter.PPPalette,
    'TablePalette': PPTable.TablePalette,
    'RecordPalette': _FieldType.RecordPalette,
    'TitlePalette': _DTFT.TitlePalette,
    'EnumPalette': PPEnumFieldType.EnumPalette,
    'PPRecordPalette': PPRecordFmt.PPRecordPalette,
    'GHistPalette': akg.GHistReport.GHistPalette,
    'HCmdPalette': akh.HCommand.HCmdPalette,
    'LLImplPalette': akh.LLImpl.LLImplPalette,
    'GlobalPalette': akc.GlobalPalette,
    'AltPPPalette': AltPPPalette,
    'AltEnumPalette': AltEnumPalette,
    'AltTablePalette': AltTablePalette,
    'AltRecPalette': AltRecPalette,
    'AltGHistPalette': AltGHistPalette,
    'AltHCmdPalette': AltHCmdPalette,
}
PALETTE_NAMES = sorted(PALETTES)

ROUTES = {
    'pp': ['conf', 'global', 'palette_obj', 'palette_cls', 'alt_obj'],
    'table': ['conf', 'global', 'palette_obj', 'palette_cls', 'alt_obj'],
    'recfmt': ['conf', 'global', 'palette_obj', 'palette_cls', 'alt_obj'],
    'ghist': ['conf', 'global', 'palette_obj', 'palette_cls', 'alt_obj'],
    'help': ['global', 'conf', 'palette_cls'],
}


# --------------------------------------------------------------------------------------------
# the printable objects (every builder returns a freshly constructed, equal object)

def _enum():
    return PPEnumFieldType({
        10: "Ok status",
        999: ("Error status", "name_warn"),
        5: ("Good", "name_good"),
        1234: ("Gone", "error"),
    })


_ENUM_RECORDS = [
    (1, "user 01", 10), (2, "user 02", 999), (3, "user 03", 20), (4, "u4", None),
    (5, "user 05", 10), (6, "x", 5), (7, "y", 1234), (8, "user 08", 999),
]


def _etable(fmt=None, **kw):
    def build():
        return PPTable(list(_ENUM_RECORDS), fields=['id', 'name', 'status'],
                       fields_types={'status': _enum()}, fmt=fmt, **kw)
    return build


def _etable_two():
    kinds = PPEnumFieldType({1: ("one", "name_good"), 2: ("two", "name_warn")})
    recs = [(1, 10, 1), (2, 999, 2), (3, 10, 3), (4, None, 1)]
    return PPTable(recs, fields=['id', 'st', 'kind'], fields_types={'st': _enum(), 'kind': kinds},
                   fmt="id,st/full,kind,kind/name,st/val")


_PLAIN_RECORDS = [
    (1, 10, "Linus"), (2, 10, "Arnold"), (3, 17, None), (4, 7.5, True),
    (5, 7, "a very long name with | and + -"), (6, 7, ""),
]


def _table_plain():
    return PPTable(list(_PLAIN_RECORDS), fields=['id', 'level', 'name'],
                   fmt="id:2, level!:3-5, name:3-9;2:1", header="My table", footer="the end")


def _table_titles():
    return PPTable(list(_PLAIN_RECORDS), fields=['id', 'level', 'name'],
                   fields_titles={'id': "Id\nof rec", 'name': ['Name', 42]},
                   header="an over-long header which does not fit into the table at all", footer="")


def _table_enh():
    records = [((1, 10, "Linus"), {'c': 'Finland'}), ((2, 10, "Arnold"), {'c': 'Russia'}),
               ((3, 17, "Jerry"), {'c': 'Neverland'})]
    return PPTable(records, fmt="id<-0.0:4, name<-0.2:0-3, c<-1.[c], id:1")


def _pp(data, fmt_json=False):
    def build():
        return (PrettyPrinter(fmt_json=fmt_json), copy.deepcopy(data))
    return build


_PP_PY = {"a": 1, "b": [1, 2, 3], "c": {"x": None, "y": True, "z": []}, 3: "str", "d": {}, "e": 1.5,
          "f": [{"k": "v", "n": [1, [2, [3, None]]]}, "s", False]}
_PP_JSON = {"long": list(range(100, 146)), "rows": [{"id": i, "ok": i % 2 == 0, "v": None} for i in range(2)],
            "wide": {f"key_{i:02}": "value " * 3 for i in range(8)}, "t": ["x" * 150, "y" * 60]}


def _recfmt_plain():
    return (PPRecordFmt("id, name, age", fields=["id", "name", "age"]), (10, "John", 42))


def _recfmt_widths():
    t = collections.namedtuple("SomeRecord", ["id", "description", "department"])
    return (PPRecordFmt("id:7,description:3-20,department:9,id:0-4"), t(10, "a longer text", None))


def _recfmt_enum():
    return (PPRecordFmt("id:3,status/name:5-14,status/full,status/val,status", fields=['id', 'status'],
                        fields_types={'status': _enum()}), (7, 999))


# ---- git history report

class _StdRepo(akg.ProjectRepo):
    _SAVED_BUILD_NUM_SOURCES = ["VERSION", ]

    def _read_saved_build_num_from_file(self, blob, path):
        nums = [int(c) for c in blob.data_stream.read().decode().strip().split('.')]
        if len(nums) == 2:
            nums.append(None)
        return akg.BuildNumData(*nums)

    def read_components_from_file(self, v_file_path, blob):
        d = json.load(blob.data_stream)
        return {k: [int(n) for n in v.split('.')] for k, v in d.items()}


class _MasterRepo(_StdRepo):
    _COMPONENTS_VERSIONS_LOCATIONS = {'proj_lib': 'DEPENDS'}


class _Coll2(akg.ReposCollection):
    _REPOS_TYPES = {'c_master': _MasterRepo, 'proj_lib': _StdRepo}


class _Coll1(akg.ReposCollection):
    _REPOS_TYPES = {'comp_1': _StdRepo}


_GH_MASTER = (
    'branch: origin/release/5.5',
    '590 |branch 5.5 head',
    '--> |file:DEPENDS:{"proj_lib": "10.20.7"}',
    '550 |build 5.5.5',
    '--> |tags: build_5_release_5_5_success',
    '--> |file:DEPENDS:{"proj_lib": "10.20.4"}',
    'branch: origin/release/5.4',
    '390<-10|branch 5.4 head BUG-212',
    '--> |tags:build_47_release_5_4_success',
    '--> |file:DEPENDS:{"proj_lib": "10.20.7"}',
    'branch: origin/release/5.3',
    '90|build 5|tags: build_5_release_5_3_success',
    '--> |file:DEPENDS:{"proj_lib": "10.20.1"}',
    '10|build 3|tags: build_3_release_5_3_success',
    '--> |file:DEPENDS:{"proj_lib": "10.10.1"}',
)
_GH_LIB = (
    'branch: origin/master',
    '995 | BUG-212 not built yet',
    '990 | final_build |tags: build_3090_release_10_130_success',
    '--> |file:VERSION:10.130|',
    'branch: origin/release/10.20',
    '190 | BUG-212 g |tags: build_9_release_10_20_success',
    '170 | BUG-212 f |tags: build_7_release_10_20_success',
    '150 | BUG-212 d |tags: build_5_release_10_20_success',
    '140 | no bug    |tags: build_4_release_10_20_success',
    '120 | BUG-212 b |tags: build_3_release_10_20_success',
    '110 | BUG-212 a |tags: build_2_release_10_20_success',
    '100 | some build |tags: build_1_release_10_20_success',
)
_GH_SINGLE = (
    "branch: origin/master",
    "340 | BUG-177",
    "330<-230, 320| merge",
    "320<-220| branch out |tags: build_4500_master_success",
    "--> |file:VERSION:10.270|",
    "branch: origin/release/10.260",
    "240<-230, 140| merge|tags: build_4445_release_10_260_success",
    "230 | BUG-133|tags: build_4444_release_10_260_success",
    "225 | BUG-166",
    "220<-120 | first commit after branch",
    "branch: origin/release/10.250",
    "150 | BUG-155",
    "140 | BUG-144",
    "130 | BUG-133|tags: build_4304_release_10_250_success ",
    "120 | BUG-122|tags: build_4303_release_10_250_success",
    "110 | BUG-111",
    "15  | Initial Commit",
)


def _ghist_stub():
    """minimal hand-made report data (used only when the repo's git mock cannot be imported)"""
    ns = types.SimpleNamespace

    def commit(i, msg, author):
        return ns(hexsha=f"{i:040x}", committed_date=15000 * 86400 + 3600 * i, message=msg, author=ns(name=author))

    def rbuild(bn, commits, incl=(), bumps=None, head=None):
        rcs = [ns(commit=c) for c in commits]
        return ns(build_num=bn, rcommit=(ns(commit=head) if head else None), included_at=list(incl),
                  bumps=bumps or {}, get_printable_rcommits=lambda: rcs)

    B = akg.BuildNumData
    c1, c2, c3 = commit(1, "BUG-1 a\nbody", "Euler"), commit(2, "BUG-1 b", "Linus B. Torvalds, esq."), commit(3, "x", "V")
    b1 = rbuild(B(10, 20, 3), [c1, c2], incl=[("top", "release/5", B(5, 5, 5)), ("top", "master", B.mk_fake_not_built())],
                head=c2)
    b2 = rbuild(B.mk_fake_not_built(), [c3], head=c3)
    b3 = rbuild(B.mk_fake_not_merged(), [c1],
                bumps={'lib': ns(to_buildnum=B(1, 2, 3), from_build_nums=[B(1, 2, 1), B(1, 2, 2)]),
                       'lib2': ns(to_buildnum=B(3, 4, 5), from_build_nums=[B(3, 4, 4)]),
                       'lib3': ns(to_buildnum=B(7, 7, 7), from_build_nums=[])})
    br = [ns(branch_name="master", get_rbuilds_list=lambda: [b2, b1]),
          ns(branch_name="release/1", get_rbuilds_list=lambda: [b3])]
    data = [("top", ns(branches=br)), ("lib", ns(branches=[]))]
    return akg.GHistReport(data, akg.ReportFormatter())


def _ghist(which):
    def build():
        if _mock_git is None:
            return _ghist_stub()
        st = random.getstate()
        random.seed(4242)
        logging.disable(logging.CRITICAL)
        try:
            M = _mock_git.MockedGitRepo
            if which == 'multi':
                repos = _Coll2({'c_master': _MasterRepo('c_master', M(*_GH_MASTER, name="c_master"), 'origin'),
                                'proj_lib': _StdRepo('proj_lib', M(*_GH_LIB, name="proj_lib"), 'origin')})
                return repos.make_report("BUG-212")
            repos = _Coll1({'comp_1': _StdRepo('comp_1', M(*_GH_SINGLE, name="component_1"), 'origin')})
            return repos.make_report("BUG" if which == 'single' else "BUG-xxx")
        finally:
            logging.disable(logging.NOTSET)
            random.setstate(st)
    return build


# ---- console help

def _help_subjects():
    @akh.h_doc
    def func(param1, param2=2, *args, **kwargs):
        """Summary of the function.

        Detailed description of the
        function and what it does.

        #tag1 #tag2 #tag3
        """
        return param1, param2, args, kwargs

    @akh.h_doc
    class Base:
        """base class summary"""
        _HDOC_ATTRS = [('c1_conn', 'connection to component 1'), ('sql_conn', 'connection to sql database')]

        def __init__(self):
            self.allow = True
            self.sql_conn = 42

        def method_1(self, some_arg):
            """will have h-doc

            Some method_1 description

            #tag_main #tag_1
            """
            return some_arg

        def method_2(self):
            return 1

        @akh.h_doc
        def method_3(self, some_arg):
            """Method with explicitely generated h_doc.

            no tags at all.
            """
            return some_arg

    @akh.h_doc
    class Derived(Base):
        """Derived class summary.

        More details of derived class.
        """
        def method_1(self, some_arg, other_arg):
            """Overridden method_1.

            #tag_overridden #tag_1
            """
            return some_arg, other_arg

        def _get_hdoc_method_notes(self, bound_method, _c):
            """notes

            #no_hdoc
            """
            fmt = _c.text if self.allow else _c.warn
            word = "allowed" if self.allow else "n/a"
            return akh.BoundMethodNotes(
                is_available=self.allow,
                note_short=CHText(fmt("short_" + word)),
                note_line=CHText(fmt("line " + word), " ", _c.attr("attr")))

    class MC(akm.MCaller):
        """Method caller summary.

        Body of the doc.
        """
        available_components = ['c1', 'c2']

        @akm.method_attrs('c1', auth="x")
        def call_a(self, arg, other=None):
            """Call a.

            Does the call.

            #api #net
            """
            return arg, other

        @akm.method_attrs()
        def call_b(self):
            """Call b."""
            return None

    obj = Derived()
    na = Derived()
    na.allow = False
    na.sql_conn = None
    mc = MC()
    return {'func': func, 'cls': Derived, 'obj': obj, 'bound': obj.method_1, 'na_obj': na,
            'na_bound': na.method_3, 'mc_cls': MC, 'mc_obj': mc, 'mc_bound': mc.call_a}


def _help(subject, level):
    def build():
        return (_help_subjects()[subject], level)
    return build


# ---- tables built from another table's format object (fmt_obj= / other.fmt): every member of a
# group is a table of its own - its rendering must not depend on whether (or in which order) the
# other members were rendered.  The records differ in width, so shared column state would show.

_LONG_RECORDS = [(1, "a user with quite a long name", "administrator"), (2, "another one", "guest")]
_SHORT_RECORDS = [(7, "bob", "dev"), (8, "eve", "qa")]
_MID_RECORDS = [(100200, "middle sized", "ops"), (3, "x", None)]


def _group_from_big():
    big = PPTable(list(_LONG_RECORDS), fields=['id', 'name', 'role'])
    small = PPTable(list(_SHORT_RECORDS), fmt_obj=big.fmt)
    third = PPTable(list(_MID_RECORDS), fmt_obj=small.fmt, header="third")
    return big, small, third


def _group_from_small():
    small = PPTable(list(_SHORT_RECORDS), fields=['id', 'name', 'role'], fmt="id:1-4, name!:2-12, role;1:1")
    big = PPTable(list(_LONG_RECORDS) + list(_MID_RECORDS) + list(_LONG_RECORDS), fmt_obj=small.fmt)
    return small, big


def _group_enum():
    first = PPTable(list(_ENUM_RECORDS), fields=['id', 'name', 'status'], fields_types={'status': _enum()},
                    fmt="id, name:1-9, status/full, status/name")
    second = PPTable([(123456, "a considerably longer user name", 5), (2, "", None)], fmt_obj=first.fmt)
    return first, second


GROUP_BUILDERS = {'from_big': _group_from_big, 'from_small': _group_from_small, 'enum_pair': _group_enum}
# member name -> (group, index)
GROUP_OF = {
    'shared_big': ('from_big', 0), 'shared_small': ('from_big', 1), 'shared_third': ('from_big', 2),
    'shared2_small': ('from_small', 0), 'shared2_big': ('from_small', 1),
    'eshared_first': ('enum_pair', 0), 'eshared_second': ('enum_pair', 1),
}


def _member(name):
    def build():
        g, i = GROUP_OF[name]
        return GROUP_BUILDERS[g]()[i]         # a fresh group; the other members are never rendered
    return build


# ---- tables whose records limit hides records with LONGER values than the visible ones (column widths
# are negotiated from the visible records only).  Their format is changed between renderings ('fmt' /
# 'rmcols' steps), e.g. the limit is lifted while the columns are kept (fmt with an empty columns part).

_LIM_FIELDS = ['id', 'name', 'status']
_LIM_RECORDS = [
    (1, "a", 10), (2, "b", 999), (3, "a much longer name", 5), (4, "c", 1234), (123456, "dd", 10),
    (6, "another, even longer name of a user", None), (7, "e", 20), (8, "f", 10),
]


def _ltable(enum=False, **kw):
    def build():
        types_ = {'fields_types': {'status': _enum()}} if enum else {}
        return PPTable(list(_LIM_RECORDS), fields=list(_LIM_FIELDS), **types_, **kw)
    return build


# name -> (builder, has enum column, (n_first, n_last) of the initial format, fields shown in plain
#          columns of negotiable width, initial format has a break-by column)
LIMITED = {
    'ltable_head': (_ltable(fmt="id,name;1:0"), False, (1, 0), ['id', 'name'], False),
    'ltable_enum': (_ltable(True, fmt="id, name:1-30, status/full;1:1", header="Users"), True, (1, 1),
                    ['id', 'name'], False),
    'ltable_kw': (_ltable(limits=(2, 1)), False, (2, 1), ['id', 'name', 'status'], False),
    'ltable_break': (_ltable(True, fmt="status!, name, id:1-4;2:0"), True, (2, 0), ['name'], True),
}
# new values of table.fmt.  Generic ones (any table): the columns part is empty (columns are kept) or '*'
GENERIC_FMTS = [';*', ';5:5', ';2:2', ';0:1', ';1:0', ';3:0', ';;', '', ';', '*', '*;*', '*;1:1']
NAMED_FMTS = ['name,id', 'name:2-6;*', 'id:3,name!;4:0', 'name,id,name:0-5;*']       # fields id, name
ENUM_FMTS = ['status/name,id;*', 'status/val:1-2,name']                             # + an enum field status
SECOND_FMTS = [';*', ';1:0']
GENERIC_FMTS_QUICK = [';*', ';2:2', ';1:0', '', '*', '*;1:1']      # for the tables which are not limited ones


def fmts_of(name):
    if name not in LIMITED:
        return list(GENERIC_FMTS)
    return GENERIC_FMTS + NAMED_FMTS + (ENUM_FMTS if LIMITED[name][1] else [])


def apply_change(table, change):
    """one change of the format of a table: ['fmt', text] or ['rmcols', names]; -> None, or the text of
    the exception (code under test may raise anything)"""
    if change[0] not in ('fmt', 'rmcols'):
        raise ValueError(f"unknown format change {change!r}")
    try:
        if change[0] == 'fmt':
            table.fmt = change[1]
        else:
            table.remove_columns(list(change[1]))
    except Budget:
        raise
    except Exception as e:      # noqa
        return f"{type(e).__name__}: {e}"
    return None


# -- what the driver itself knows about the records shown by a limited table (for reach events only;
# from the documented meaning of the fmt string: 'columns;n_first:n_last', '' = keep, '*' = all)

def limits_after(fmt, cur):
    parts = fmt.split(';')
    lines = parts[1].strip() if len(parts) > 1 else ''
    if lines == '':
        return cur
    if lines == '*':
        return (None, None)
    a, b = lines.split(':')
    return (int(a), int(b))


def shown_records(nrec, limits):
    """indexes of the records shown under (n_first, n_last), table without break lines"""
    nf, nl = limits
    if nf is None or nl is None or nrec <= nf + nl + 1:
        return set(range(nrec))
    return set(range(nf)) | set(range(nrec - nl, nrec))


def wider_record_revealed(fields, before, after):
    """a record shown now but not before has, in one of `fields`, a longer text than the field's title
    and every record shown before"""
    for f in fields:
        i = _LIM_FIELDS.index(f)
        old = max([len(f)] + [len(str(_LIM_RECORDS[k][i])) for k in before if _LIM_RECORDS[k][i] is not None])
        new = [len(str(_LIM_RECORDS[k][i])) for k in after - before if _LIM_RECORDS[k][i] is not None]
        if new and max(new) > old:
            return True
    return False


# name -> (kind, builder, has_enum_column)
OBJECTS = {
    'pp_py': ('pp', _pp(_PP_PY), False),
    'pp_json': ('pp', _pp(_PP_JSON, True), False),
    'pp_scalar': ('pp', _pp("just a text"), False),
    'pp_list': ('pp', _pp([1, None, "two", 3.5, True, [], {}], True), False),
    'table_plain': ('table', _table_plain, False),
    'table_titles': ('table', _table_titles, False),
    'table_enh': ('table', _table_enh, False),
    'table_empty': ('table', lambda: PPTable([]), False),
    'table_norecs': ('table', lambda: PPTable([], fields=['a', 'bb'], header="h"), False),
    'etable_dflt': ('table', _etable(), True),
    'etable_all': ('table', _etable("id, status/name, status/full, status/val, status"), True),
    'etable_val': ('table', _etable("id,status/val"), True),
    'etable_name': ('table', _etable("id:1-3,status/name:4-6"), True),
    'etable_full': ('table', _etable("status/full!, name:3;3:2", header="Statuses"), True),
    'etable_two': ('table', _etable_two, True),
    'recfmt_plain': ('recfmt', _recfmt_plain, False),
    'recfmt_widths': ('recfmt', _recfmt_widths, False),
    'recfmt_enum': ('recfmt', _recfmt_enum, True),
    'ghist_multi': ('ghist', _ghist('multi'), False),
    'ghist_single': ('ghist', _ghist('single'), False),
    'ghist_empty': ('ghist', _ghist('empty'), False),
    'help_func:h': ('help', _help('func', 1), False),
    'help_cls:h': ('help', _help('cls', 1), False),
    'help_cls:hh': ('help', _help('cls', 2), False),
    'help_obj:h': ('help', _help('obj', 1), False),
    'help_obj:hh': ('help', _help('obj', 2), False),
    'help_bound:h': ('help', _help('bound', 1), False),
    'help_na_obj:h': ('help', _help('na_obj', 1), False),
    'help_na_obj:hh': ('help', _help('na_obj', 2), False),
    'help_na_bound:hh': ('help', _help('na_bound', 2), False),
    'help_mc_cls:hh': ('help', _help('mc_cls', 2), False),
    'help_mc_obj:h': ('help', _help('mc_obj', 1), False),
    'help_mc_bound:h': ('help', _help('mc_bound', 1), False),
}
for _n, (_g, _i) in GROUP_OF.items():
    OBJECTS[_n] = ('table', _member(_n), _g == 'enum_pair')
RANDOM_POOL = list(OBJECTS)          # the objects of the random histories (C) - the limited tables below
                                     # have random histories of their own (D)
for _n, _m in LIMITED.items():
    OBJECTS[_n] = ('table', _m[0], _m[1])
OBJECT_NAMES = list(OBJECTS)
TABLE_NAMES = [n for n in OBJECT_NAMES if OBJECTS[n][0] == 'table']
GROUP_MEMBERS = {g: sorted((n for n in GROUP_OF if GROUP_OF[n][0] == g), key=lambda n: GROUP_OF[n][1])
                 for g in GROUP_BUILDERS}
ENUM_OBJECTS = [n for n in RANDOM_POOL if OBJECTS[n][2]]
CHURN_OBJECTS = [n for n in ENUM_OBJECTS if n not in GROUP_OF]


# --------------------------------------------------------------------------------------------
# colours configurations (JSON-able descriptions)

NAMED = ['BLACK', 'RED', 'GREEN', 'YELLOW', 'BLUE', 'MAGENTA', 'CYAN', 'WHITE']
INTS = ['0', '7', '16', '123', '231', '232', '255']
RGBS = ['(0,0,0)', '(1,2,3)', '(5,5,5)', '(5,0,2)']
GRAYS = ['g0', 'g7', 'g23']
ATOMS = NAMED + INTS + RGBS + GRAYS
MODS = ['bold', 'faint', 'underline', 'blink', 'crossed', 'bold,underline', 'no_bold', 'faint,crossed,blink']
BUILTIN = ['TEXT', 'NAME', 'KEYWORD', 'NUMBER', 'OK', 'WARN', 'ERROR']
SYNT_IDS = BUILTIN + [
    'RECORD.NUMBER', 'RECORD.KEYWORD', 'RECORD.TITLE', 'RECORD.COL_TITLE',
    'TABLE.BORDER', 'TABLE.WARN', 'TABLE.HEADER',
    'GHIST.REPO', 'GHIST.BRANCH', 'GHIST.HASH', 'GHIST.HASH_NOT_MERGED', 'GHIST.COMMIT_TIME',
    'GHIST.COMMIT_NAME', 'GHIST.VERSION', 'GHIST.VER_NOT_BUILT', 'GHIST.VER_NOT_MERGED',
    'HDOC.ATTR', 'HDOC.FUNC_NAME', 'HDOC.TAG', 'HDOC.WARN',
    'ENUMX.GOOD', 'ENUMX.WARN', 'PPX.NUM', 'LL.NAME', 'LL.CATEGORY',
]
CELL_IDS = ['TEXT', 'NUMBER', 'KEYWORD', 'ERROR', 'RECORD.NUMBER', 'RECORD.KEYWORD', 'ENUMX.GOOD', 'ENUMX.WARN']
DEFAULT_SPEC = {'init': {}, 'no_color': False}


def gen_descr(rng, synt_id):
    """one colour description; references only to built-in ids, never from a built-in id"""
    fg = rng.choice(ATOMS + ['', '-'])
    r = rng.random()
    if r < 0.3:
        colours = fg
    elif r < 0.6:
        colours = fg + '/' + rng.choice(ATOMS + ['-', ''])
    else:
        colours = rng.choice(ATOMS)
    mods = rng.choice(MODS) if rng.random() < 0.4 else ''
    parent = ''
    if synt_id not in BUILTIN and rng.random() < 0.25:
        parent = rng.choice(BUILTIN)
        if '-' in colours:                 # an explicit '-' together with a parent is C14's business
            colours = colours.replace('-', 'CYAN')
        if rng.random() < 0.4:
            colours = ''
    parts = [p for p in (parent, colours) if p]
    descr = ':'.join(parts)
    if mods:
        descr = descr + ':' + mods if descr else 'WHITE:' + mods
    return descr


def nest(init):
    out = {}
    for k, v in init.items():
        if '.' in k:
            a, b = k.split('.', 1)
            out.setdefault(a, {})[b] = v
        else:
            out[k] = v
    return out


def gen_spec(rng, ids=None):
    if ids is None:
        n = rng.choice([0, 1, 2, 3, 5, 8, 12, len(SYNT_IDS)])
        ids = rng.sample(SYNT_IDS, n)
    init = {sid: gen_descr(rng, sid) for sid in ids}
    if rng.random() < 0.3:
        init = nest(init)
    return {'init': init, 'no_color': rng.random() < 0.06}


def churn_spec(seed, r):
    """configs of a churn: the colours of everything an enum cell is made of change every round"""
    rng = random.Random(seed * 100003 + r)
    init = {}
    for i, sid in enumerate(CELL_IDS):
        init[sid] = ATOMS[(r * 5 + i * 3 + seed) % len(ATOMS)]
    if rng.random() < 0.5:
        init['TABLE.BORDER'] = rng.choice(ATOMS)
    return {'init': init, 'no_color': False}


def grid_specs(tier):
    specs = [{'init': {}, 'no_color': False}, {'init': {}, 'no_color': True}]
    atoms = ['RED', '123', '(1,2,3)', 'g7'] if tier == 'quick' else ATOMS
    for a in atoms:
        specs.append({'init': {'TEXT': a}, 'no_color': False})
        specs.append({'init': {sid: a for sid in SYNT_IDS}, 'no_color': False})
    specs.append({'init': {sid: 'RED/123:bold' for sid in SYNT_IDS}, 'no_color': False})
    specs.append({'init': {sid: '(5,0,2)/g3:underline' for sid in SYNT_IDS}, 'no_color': False})
    specs.append({'init': nest({sid: ('NUMBER:bold' if sid not in BUILTIN else 'g12')
                                for sid in SYNT_IDS}), 'no_color': False})
    specs.append({'init': {sid: '17' for sid in SYNT_IDS}, 'no_color': True})
    rng = random.Random(1010)
    for _ in range(4 if tier == 'quick' else 16):
        specs.append(gen_spec(rng))
    return specs


def make_conf(spec):
    return ColorsConfig(copy.deepcopy(spec['init']), no_color=bool(spec['no_color']))


def registered_names(conf):
    """names (in PALETTES) of the components registered in `conf`, in the order in which the syntax
    map recorded them; components which added no syntax id come last"""
    try:
        by_name = {str(c): c for c in conf.registered_sources}
        order = []
        for d in conf.syntax_map.values():
            c = by_name.get(d.src_obj_name)
            if c is not None and c not in order:
                order.append(c)
        rest = sorted((c for c in conf.registered_sources if c not in order), key=str)
    except AttributeError:
        return []
    rev = {c: n for n, c in PALETTES.items()}
    return [rev[c] for c in order + rest if c in rev]


def map_signature(conf):
    """the syntax map as seen through the public interface: {syntax id: how a sample text is decorated}"""
    try:
        ids = sorted(conf.syntax_map)
    except AttributeError:
        return None
    return {sid: str(conf.get_color(sid)('x')) for sid in ids}


# --------------------------------------------------------------------------------------------
# one rendering, consumed in both orders

class Rendering:
    __slots__ = ('whole', 'plain', 'lines', 'plines', 'whole_again', 'whole_b', 'lines_b', 'nontext', 'exc',
                 'reps')     # reps: what the consumption schedule observed (not part of key(): the reference
                             # is consumed once; clause 3 compares reps with the first consumption)

    def key(self):
        return (self.whole, self.plain, self.lines, self.plines, self.whole_again, self.whole_b,
                self.lines_b, self.nontext, self.exc and self.exc.split(':')[0])


def _to_dict(r):
    return {n: getattr(r, n) for n in Rendering.__slots__}


def _rendering(**kw):
    r = Rendering()
    for n in Rendering.__slots__:
        setattr(r, n, kw.get(n))
    return r


class Budget(BaseException):
    pass


def _on_alarm(signum, frame):
    raise Budget()


@contextlib.contextmanager
def as_global(conf):
    saved = akc.get_global_colors_config()
    akc.set_global_colors_config(conf)
    try:
        yield
    finally:
        akc.set_global_colors_config(saved)


def render(kind, handle, conf, spec, route, no_color, track=None, schedule=None):
    """render `handle` (kind-specific) under `conf` via `route`; never raises (except Budget)"""
    try:
        return _render(kind, handle, conf, spec, route, no_color, track, schedule)
    except Budget:
        raise
    except Exception as e:      # noqa  (code under test may raise anything)
        return _rendering(exc=f"{type(e).__name__}: {e}")


def _line_texts(items):
    """lines of a result -> ([str(line)], [plain text], type name of the first line which is not text).
    A line which is neither a CHText, a chunk nor a str (e.g. a bare list of chunks) is converted with
    CHText(line) so that the text clauses can still be evaluated; its type is reported."""
    strs, plains, nontext = [], [], None
    for x in items:
        if isinstance(x, str):
            strs.append(x)
            plains.append(x)
        elif hasattr(x, 'plain_text'):
            strs.append(str(x))
            plains.append(x.plain_text())
        else:
            if nontext is None:
                nontext = type(x).__name__
            c = CHText(x)
            strs.append(str(c))
            plains.append(c.plain_text())
    return strs, plains, nontext


def _palette_args(kind, conf, route):
    if route == 'conf':
        return None, conf
    if route == 'global':
        return None, None
    if route == 'palette_obj':
        return BASE_PAL[kind](conf), None
    if route == 'palette_cls':
        return ALT_PAL[kind], conf
    if route == 'alt_obj':
        return ALT_PAL[kind](conf), None
    raise ValueError(route)


_END = object()


def consume(r, schedule):
    """consume ONE result object according to `schedule`; -> [[op, observed]] (JSON-able).
    'iter' -> texts of all lines; 'str' / 'plain' -> the text; ['take', k] -> texts of the first k lines
    (the iterator is kept, paused); 'resume' -> texts of ALL lines the paused iterator gave (before and
    after the pause; skipped when nothing is paused); 'zip' -> [lines of iterator a, lines of iterator b],
    the two advanced in lockstep"""
    out = []
    paused = None
    for op in schedule:
        if op == 'iter':
            out.append(['iter', _line_texts(list(r))[0]])
        elif op == 'str':
            out.append(['str', str(r)])
        elif op == 'plain':
            out.append(['plain', r.plain_text()])
        elif op == 'zip':
            ia, ib = iter(r), iter(r)
            a, b = [], []
            while True:
                x, y = next(ia, _END), next(ib, _END)
                if x is _END and y is _END:
                    break
                if x is not _END:
                    a.append(x)
                if y is not _END:
                    b.append(y)
            out.append(['zip', [_line_texts(a)[0], _line_texts(b)[0]]])
        elif op == 'resume':
            if paused is not None:
                it, got = paused
                paused = None
                out.append(['resume', got + _line_texts(list(it))[0]])
        elif isinstance(op, (list, tuple)) and len(op) == 2 and op[0] == 'take':
            it = iter(r)
            got = _line_texts(list(itertools.islice(it, int(op[1]))))[0]
            paused = (it, got)
            out.append(['take', got])
        else:
            raise ValueError(f"unknown consumption {op!r}")
    return out


def _render(kind, handle, conf, spec, route, no_color, track, schedule=None):
    if kind == 'help':
        return _render_help(handle, conf, spec, route, no_color)
    pal, cc = _palette_args(kind, conf, route)
    if track is not None and pal is not None and not isinstance(pal, type):
        track(pal)
    if kind == 'recfmt':
        fmt, record = handle
        r = fmt(record, palette=pal, no_color=no_color, colors_conf=cc)
        whole = str(r)
        cht = r.ch_text()
        res = _rendering(whole=whole, plain=cht.plain_text(), whole_again=str(r), whole_b=str(cht))
    else:
        if kind == 'pp':
            printer, data = handle
            mk = lambda: printer(data, palette=pal, no_color=no_color, colors_conf=cc)     # noqa: E731
        else:
            mk = lambda: handle.ch_text(palette=pal, no_color=no_color, colors_conf=cc)    # noqa: E731
        r = mk()
        lines = list(r)
        whole = str(r)
        plain = r.plain_text()
        again = str(r)
        r2 = mk()
        whole_b = str(r2)
        lines_b = list(r2)
        ls, lp, nontext = _line_texts(lines)
        reps = consume(mk(), schedule) if schedule else None
        res = _rendering(whole=whole, plain=plain, lines=ls, plines=lp, whole_again=again, whole_b=whole_b,
                         lines_b=_line_texts(lines_b)[0], nontext=nontext, reps=reps)
    if track is not None and pal is not None and not isinstance(pal, type) and hasattr(pal, 'get_sub_palette'):
        try:
            track(pal.get_sub_palette(PPEnumFieldType.EnumPalette))
        except Exception:   # noqa
            pass
    return res


def _render_help(handle, conf, spec, route, no_color):
    subject, level = handle
    if route == 'global':
        # the console commands take their palette from the global configuration when constructed;
        # their only no_color form is a no_color global configuration
        if no_color:
            ctx = as_global(ColorsConfig(copy.deepcopy(spec['init']), no_color=True))
        else:
            ctx = contextlib.nullcontext()
        with ctx:
            cmd = akh.HCommand(level)
            lines = list(cmd._gen_ch_lines(subject, akh.HCommand._DFLT_FILT_ARG, level, False))
            whole = akh.HCommand(level)._make_help_text(subject)
        ls, lp, nontext = _line_texts(lines)
        return _rendering(whole=whole, plain="\n".join(lp), lines=ls, plines=lp,
                          whole_again=whole, whole_b=whole, lines_b=list(ls), nontext=nontext)
    pcls = ALT_PAL['help'] if route == 'palette_cls' else BASE_PAL['help']
    pal = pcls(conf, no_color)
    if not hasattr(subject, '_h_doc'):
        lines, lines_b = [], []
    else:
        gen = lambda: subject._h_doc.gen_help_text(subject, akh.HCommand._DFLT_FILT_ARG, pal, level, False)  # noqa: E731
        lines = list(gen())
        lines_b = list(gen())
    ls, lp, nontext = _line_texts(lines)
    lsb = _line_texts(lines_b)[0]
    whole = "\n".join(ls)
    return _rendering(whole=whole, plain="\n".join(lp), lines=ls, plines=lp,
                      whole_again=whole, whole_b="\n".join(lsb), lines_b=lsb, nontext=nontext)


# --------------------------------------------------------------------------------------------
# the reference: a freshly constructed equal object under a freshly constructed equal configuration,
# rendered in a process which has never rendered anything (forked from the pristine state), so that
# memory kept in classes / module globals cannot leak into the reference

def _reference(req):
    name, spec, route, regs = req[:4]
    changes = req[4] if len(req) > 4 else []
    sys.stdout, sys.stderr = io.StringIO(), io.StringIO()
    kind, builder, _ = OBJECTS[name]
    akc.set_global_colors_config(None)
    fresh = make_conf(spec)
    for n in regs:
        PALETTES[n].register_in_colors_conf(fresh)
    sig = map_signature(fresh)
    handle = builder()
    for ch in changes:                  # the never rendered twin gets the same format changes
        apply_change(handle, ch)
    ctx = as_global(fresh) if route == 'global' else contextlib.nullcontext()
    with ctx:
        col = render(kind, handle, fresh, spec, route, False, None)
        noc = render(kind, handle, fresh, spec, route, True, None)
    return {'col': _to_dict(col), 'noc': _to_dict(noc), 'sig': sig}


def _read_exact(fd, n):
    buf = b''
    while len(buf) < n:
        chunk = os.read(fd, n - len(buf))
        if not chunk:
            return None
        buf += chunk
    return buf


def _send(fd, obj):
    data = pickle.dumps(obj, protocol=pickle.HIGHEST_PROTOCOL)
    data = struct.pack('<I', len(data)) + data
    while data:
        n = os.write(fd, data)
        data = data[n:]


def _recv(fd):
    head = _read_exact(fd, 4)
    if head is None:
        return None
    body = _read_exact(fd, struct.unpack('<I', head)[0])
    return None if body is None else pickle.loads(body)


class RefServer:
    """forked at a moment when this process has not rendered anything; answers every request from a
    further fork of itself, i.e. always from the pristine interpreter state"""

    def __init__(self):
        r1, w1 = os.pipe()
        r2, w2 = os.pipe()
        pid = os.fork()
        if pid == 0:
            code = 0
            try:
                os.close(w1)
                os.close(r2)
                signal.setitimer(signal.ITIMER_PROF, 0)
                signal.signal(signal.SIGPROF, signal.SIG_DFL)
                self._serve(r1, w2)
            except BaseException:       # noqa
                code = 1
            finally:
                os._exit(code)
        os.close(r1)
        os.close(w2)
        self.pid, self.w, self.r = pid, w1, r2

    @staticmethod
    def _serve(rfd, wfd):
        while True:
            req = _recv(rfd)
            if req is None:
                return
            pr, pw = os.pipe()
            pid = os.fork()
            if pid == 0:
                code = 0
                try:
                    os.close(pr)
                    signal.setitimer(signal.ITIMER_PROF, REFERENCE_BUDGET_S)     # CPU time; default action: terminate
                    try:
                        resp = _reference(req)
                    except BaseException as e:      # noqa
                        resp = {'error': f"{type(e).__name__}: {e}"}
                    _send(pw, resp)
                except BaseException:       # noqa
                    code = 1
                finally:
                    os._exit(code)
            os.close(pw)
            resp = _recv(pr)
            os.close(pr)
            os.waitpid(pid, 0)
            _send(wfd, resp if resp is not None else {'error': 'the reference rendering did not finish'})

    broken = False

    def request(self, req):
        if self.broken:
            raise RuntimeError("reference server out of step after a budget overrun")
        _send(self.w, req)
        resp = _recv(self.r)
        if resp is None:
            raise RuntimeError("reference server died")
        return resp

    def close(self):
        for fd in (self.w, self.r):
            try:
                os.close(fd)
            except OSError:
                pass
        try:
            os.waitpid(self.pid, 0)
        except OSError:
            pass


# --------------------------------------------------------------------------------------------
# the clauses

def _short(x, n=160):
    s = repr(x)
    return s if len(s) <= n else s[:n] + '...'


def clauses_1_2_3(name, has_enum, spec, route, col, noc):
    """[(clause, key suffix, text)] for one coloured / no_color pair of renderings"""
    out = []
    where = f"object {name} via {route} under ColorsConfig({json.dumps(spec['init'], sort_keys=True)}" \
            f"{', no_color=True' if spec['no_color'] else ''})"
    if col.exc or noc.exc:
        if (col.exc or '').split(':')[0] != (noc.exc or '').split(':')[0]:
            out.append(('strip_equals_nocolor', 'raises',
                        f"{where}: coloured rendering -> {col.exc or 'ok'}, no_color rendering -> {noc.exc or 'ok'}"))
        return out
    # (1)
    try:
        stripped = CHText.strip_colors(col.whole)
    except Exception as e:      # noqa
        stripped = None
        out.append(('strip_equals_nocolor', 'raises', f"{where}: CHText.strip_colors raises {type(e).__name__}: {e}"))
    if stripped is not None and stripped != noc.plain:
        if strip_all(col.whole) == noc.plain and col.plain == noc.plain:
            if _SGR_256.search(col.whole) and ESC in stripped:
                key = '256-colour-sequence-not-stripped'
                m = _SGR_256.search(col.whole)
                why = f"strip_colors leaves {m.group(0)!r} in the text"
            else:
                key = 'strip_colors-leaves-escape'
                why = "strip_colors does not remove every escape sequence"
        else:
            key = 'layout-differs'
            why = "the coloured text differs from the no_color text"
        out.append(('strip_equals_nocolor', key,
                    f"{where}: CHText.strip_colors(str(coloured)) != no_color plain text; {why}; "
                    f"{first_diff(stripped, noc.plain)}"))
    elif col.plain != noc.plain or strip_all(col.whole) != noc.plain:
        out.append(('strip_equals_nocolor', 'layout-differs',
                    f"{where}: text of the coloured rendering != no_color plain text; "
                    f"{first_diff(strip_all(col.whole), noc.plain)}"))
    # (2)
    texts = [noc.whole, noc.plain, noc.whole_b or ''] + list(noc.lines or []) + list(noc.plines or [])
    if any(ESC in t for t in texts):
        bad = next(t for t in texts if ESC in t)
        key = 'enum-column-stale-colours' if has_enum and ESC not in strip_all(bad) else 'escape-in-nocolor'
        out.append(('nocolor_has_no_escape', key,
                    f"{where}: no_color output contains an escape character: {_short(bad[max(0, bad.index(ESC) - 10):][:60])}"))
    # (3)
    for tag, x in (('coloured', col), ('no_color', noc)):
        if x.lines is None:
            continue
        if x.nontext:
            out.append(('lines_equal_whole', 'line-is-not-text',
                        f"{where} ({tag}): iterating the result yields a bare {x.nontext} of chunks instead of a line of "
                        f"text (str(line) is the repr of the chunks, not the line's text)"))
        joined = "\n".join(x.lines)
        if runs(joined) != runs(x.whole):
            out.append(('lines_equal_whole', 'lines-vs-whole',
                        f"{where} ({tag}): lines joined != whole; {first_diff(joined, x.whole)}"))
        elif "\n".join(x.plines) != x.plain:
            out.append(('lines_equal_whole', 'lines-vs-whole',
                        f"{where} ({tag}): plain text of lines != plain text of whole; "
                        f"{first_diff(chr(10).join(x.plines), x.plain)}"))
        if runs(x.whole_b) != runs(x.whole) or runs(x.whole_again) != runs(x.whole) \
                or [runs(a) for a in x.lines_b] != [runs(a) for a in x.lines]:
            same_text = strip_all(x.whole_b) == strip_all(x.whole) and \
                [strip_all(a) for a in x.lines_b] == [strip_all(a) for a in x.lines]
            out.append(('lines_equal_whole',
                        'enum-column-stale-colours' if has_enum and same_text else 'consumption-order',
                        f"{where} ({tag}): a result consumed whole-then-lines differs from one consumed "
                        f"lines-then-whole; {first_diff(x.whole_b, x.whole)}"))
        out += clause_3_again(where, tag, has_enum, x)
    return out


def schedule_events(x):
    """reach events of one rendering whose schedule was really carried out (x.reps)"""
    if x.exc or not x.reps or x.lines is None:
        return []
    ev = set()
    total = len(x.lines)
    iters = 0            # iterations of the result started so far
    partial = False      # ... one of them abandoned / paused after >= 1 line, before its end
    paused_at = None
    for i, (op, got) in enumerate(x.reps):
        if op == 'iter':
            if iters:
                ev.add('same-result-iterated-twice')
            if partial:
                ev.add('result-iterated-after-partial-iteration')
            iters += 1
        elif op == 'take':
            if iters:
                ev.add('same-result-iterated-twice')
            if 1 <= len(got) < total:
                partial = True
                paused_at = i
            iters += 1
        elif op == 'resume':
            if paused_at is not None and any(o in ('iter', 'zip', 'take') for o, _ in x.reps[paused_at + 1:i]):
                ev.add('paused-iteration-resumed-after-another-iteration')
            paused_at = None
        elif op == 'zip':
            if total >= 2:
                ev.add('two-iterations-of-one-result-interleaved')
            if iters:
                ev.add('same-result-iterated-twice')
            iters += 2
        elif op in ('str', 'plain'):
            if iters and any(o in ('iter', 'take', 'zip') for o, _ in x.reps[i + 1:]):
                ev.add('result-iterated-before-and-after-whole-text')
    return sorted(ev)


def clause_3_again(where, tag, has_enum, x):
    """one and the same result object consumed again and again (x.reps, see consume()): every complete
    consumption gives the text of the first one (x.lines / x.whole / x.plain, all obtained from another
    result of the same request), a partial one gives its beginning.  One finding per class."""
    out = []
    seen = set()
    want_lines = [runs(a) for a in x.lines]
    done = []
    for op, got in x.reps or ():
        if op == 'str':
            pairs = [(runs(got), runs(x.whole), got, x.whole)]
        elif op == 'plain':
            pairs = [(got, x.plain, got, x.plain)]
        elif op == 'take':
            n = len(got)
            pairs = [([runs(a) for a in got], want_lines[:n], "\n".join(got), "\n".join(x.lines[:n]))]
        elif op == 'zip':
            pairs = [([runs(a) for a in g], want_lines, "\n".join(g), "\n".join(x.lines)) for g in got]
        else:       # 'iter', 'resume'
            pairs = [([runs(a) for a in got], want_lines, "\n".join(got), "\n".join(x.lines))]
        for have, want, a, b in pairs:
            if have == want:
                continue
            cls = 'interleaved-iterations' if op in ('zip', 'resume') else 'reiteration'
            if has_enum and strip_all(a) == strip_all(b):
                cls = 'enum-column-stale-colours'
            if cls in seen:
                continue
            seen.add(cls)
            what = {'iter': "iterating it", 'str': "str() of it", 'plain': "plain_text() of it",
                    'take': "the first lines of a new iteration of it",
                    'resume': "the lines of its paused iteration (those taken before the pause + the rest)",
                    'zip': "one of two iterations of it advanced in lockstep"}[op]
            after = ", ".join(done) if done else "nothing else"
            out.append(('lines_equal_whole', cls,
                        f"{where} ({tag}): the same result object consumed repeatedly: {what} after [{after}] gives "
                        f"{len(a.split(chr(10))) if a else 0} line(s) which differ from the text of the result "
                        f"(another result of the same request consumed once: {len(x.lines)} lines); {first_diff(a, b)}"))
        done.append(op if op != 'take' else f"take {len(got)}")
    return out


def clause_4(name, has_enum, spec, route, tag, got, want, changes=()):
    if got.key() == want.key():
        return []
    where = f"object {name} via {route} ({tag}) under ColorsConfig({json.dumps(spec['init'], sort_keys=True)})"
    if changes:
        where = f"object {name} after the format changes {json.dumps(list(changes))} via {route} ({tag}) under " \
                f"ColorsConfig({json.dumps(spec['init'], sort_keys=True)})"
    if got.exc or want.exc:
        return [('history_independent', 'raises',
                 f"{where}: after the history -> {got.exc or 'ok'}, fresh object + fresh configuration -> {want.exc or 'ok'}")]
    same_text = strip_all(got.whole) == strip_all(want.whole) and got.plain == want.plain
    if same_text and has_enum:
        key = 'enum-column-stale-colours'
    elif same_text:
        key = 'colours-differ'
    elif changes:
        key = 'text-differs-after-format-change'
    else:
        key = 'text-differs'
    a, b = got.whole, want.whole
    if a == b:
        for f in ('plain', 'lines', 'whole_b', 'lines_b', 'whole_again'):
            if getattr(got, f) != getattr(want, f):
                a, b = str(getattr(got, f)), str(getattr(want, f))
                break
    return [('history_independent', key,
             f"{where}: rendering after the history != rendering of a fresh equal object "
             f"{'(never rendered, given the same format changes) ' if changes else ''}under a fresh equal "
             f"configuration; {first_diff(a, b)}")]


# --------------------------------------------------------------------------------------------
# history execution

class Runner:
    def __init__(self, server):
        self.server = server
        self.fails = []          # (clause, key suffix, text, step index)
        self.diags = []
        self.hits = collections.Counter()
        self.objs = {}
        self.slots = {}          # slot -> [conf, spec]
        self.global_spec = DEFAULT_SPEC
        self.pal_seen = {}       # id -> weakref of the palette last seen with this id
        self.rendered = set()    # (slot generation, obj) already rendered
        self.rendered_names = set()
        self.gen = collections.Counter()
        self.dropped_after = set()   # objects rendered under a config which was discarded since
        self.n_conf = 0
        self.n_drop = 0
        self.enum_rendered = False
        self.step = 0
        self.changes = {}        # object name -> the format changes applied to the object so far
        self.changed_after_render = set()     # tables whose format was changed after a rendering
        self.shown = {}          # limited table -> [limits in force, records shown by its last rendering
                                 #                   or None, a wider hidden record is to be revealed]

    # ---- bookkeeping
    def track(self, p):
        i = id(p)
        w = self.pal_seen.get(i)
        if w is not None and w() is None:
            self.hits['palette-id-reused-after-collection'] += 1
        if w is None or w() is not p:
            try:
                self.pal_seen[i] = weakref.ref(p)
            except TypeError:
                pass

    def obj(self, name):
        if name not in self.objs:
            if name in GROUP_OF:          # the members of a group are built together, once per history
                g = GROUP_OF[name][0]
                for n, member in zip(GROUP_MEMBERS[g], GROUP_BUILDERS[g]()):
                    self.objs[n] = member
            else:
                self.objs[name] = OBJECTS[name][1]()
        return self.objs[name]

    def limited_state(self, name):
        """what the driver knows about a limited table whose columns are still those of its initial format
        (no break-by column): [limits, records shown by the last rendering, reveal pending]; else None"""
        if name not in LIMITED or LIMITED[name][4]:
            return None
        if name not in self.shown:
            self.shown[name] = [LIMITED[name][2], None, False]
        return self.shown[name]

    def add(self, res, ctx):
        for clause, key, text in res:
            self.fails.append((clause, key, text, self.step, ctx))

    # ---- one render request: all four clauses
    def check(self, name, conf, spec, route, schedule=None):
        kind, builder, has_enum = OBJECTS[name]
        handle = self.obj(name)
        regs = registered_names(conf)            # the configuration in force, at the moment of the request
        sig = map_signature(conf)
        col = render(kind, handle, conf, spec, route, False, self.track, schedule)
        noc = render(kind, handle, conf, spec, route, True, None, schedule)
        for x in (col, noc):
            for ev in schedule_events(x):
                self.hits[ev] += 1
        self.hits['same-result-consumed-twice'] += 1
        if self.hits['render'] >= 1:
            self.hits['nocolor-requested-twice'] += 1
        self.hits['render'] += 1
        if col.whole and _SGR_256.search(col.whole):
            self.hits['config-256-colours'] += 1
        if name in ('etable_all', 'etable_two') and not col.exc:
            self.hits['two-enum-columns-share-sub-palette'] += 1
        res = clauses_1_2_3(name, has_enum, spec, route, col, noc)
        changes = list(self.changes.get(name, ()))
        ref = self.server.request((name, spec, route, regs, changes))
        if 'error' in ref:
            self.diags.append(f"reference rendering of {name} via {route} failed: {ref['error'][:200]}; "
                              f"history clause skipped for this request")
        elif ref['sig'] != sig:
            self.diags.append(f"could not construct an equal configuration for {json.dumps(spec, sort_keys=True)} "
                              f"(syntax maps differ); history clause skipped for this request")
        else:
            fcol, fnoc = _rendering(**ref['col']), _rendering(**ref['noc'])
            if col.exc and fcol.exc and col.exc.split(':')[0] == fcol.exc.split(':')[0]:
                self.diags.append(f"rendering {name} via {route} raises {col.exc[:200]} (also on a fresh object)")
            res += clause_4(name, has_enum, spec, route, 'coloured', col, fcol, changes)
            res += clause_4(name, has_enum, spec, route, 'no_color', noc, fnoc, changes)
        self.add(res, (spec, name, route, schedule))
        return res

    # ---- steps
    def run_step(self, st):
        op = st[0]
        if op == 'conf':
            _, slot, spec = st
            replaced = slot in self.slots
            if replaced:
                self.n_drop += 1
                self.dropped_after |= {o for (s, g, o) in self.rendered if s == slot and g == self.gen[slot]}
            self.gen[slot] += 1
            self.slots[slot] = [make_conf(spec), spec]
            self.n_conf += 1
            if replaced:
                gc.collect()
        elif op == 'reg':
            _, slot, pname, no_color = st
            if slot in self.slots:
                try:
                    PALETTES[pname](self.slots[slot][0], bool(no_color))
                    PALETTES[pname](self.slots[slot][0], bool(no_color))
                except Budget:
                    raise
                except Exception as e:      # noqa
                    self.diags.append(f"constructing palette {pname} raises {type(e).__name__}: {e}")
        elif op == 'render':
            _, slot, name, route = st[:4]
            schedule = st[4] if len(st) > 4 else None
            if route == 'global':
                conf, spec = akc.get_global_colors_config(), self.global_spec
                tag = ('global', 0)
            elif slot in self.slots:
                conf, spec = self.slots[slot]
                tag = (slot, self.gen[slot])
            else:
                return
            if OBJECTS[name][2]:
                self.enum_rendered = True
                if name in self.dropped_after:
                    self.hits['enum-table-rendered-after-config-discarded'] += 1
                if tag + (name,) in self.rendered:
                    self.hits['enum-table-rerendered-under-same-config'] += 1
            self.rendered.add(tag + (name,))
            if name in GROUP_OF and any(n != name and n in self.rendered_names
                                        for n in GROUP_MEMBERS[GROUP_OF[name][0]]):
                self.hits['table-sharing-format-object-with-rendered-table'] += 1
            self.rendered_names.add(name)
            if name in self.changed_after_render:
                self.hits['table-format-changed-between-renderings'] += 1
            st_ = self.limited_state(name)
            if st_ is not None:
                if st_[2]:
                    self.hits['columns-kept-fmt-change-reveals-wider-hidden-record'] += 1
                st_[1] = shown_records(len(_LIM_RECORDS), st_[0])
                st_[2] = False
            self.check(name, conf, spec, route, schedule)
        elif op == 'drop':
            _, slot = st
            if slot in self.slots:
                self.dropped_after |= {o for (s, g, o) in self.rendered if s == slot and g == self.gen[slot]}
                del self.slots[slot]
                self.n_drop += 1
            gc.collect()
        elif op == 'global':
            _, slot = st
            if slot in self.slots:
                akc.set_global_colors_config(self.slots[slot][0])
                self.global_spec = self.slots[slot][1]
                self.hits['global-config-replaced'] += 1
        elif op in ('fmt', 'rmcols'):
            _, name, arg = st
            if OBJECTS[name][0] != 'table':
                raise ValueError(f"format change of an object which is not a table: {st!r}")
            change = [op, arg]
            handle = self.obj(name)
            st_ = self.limited_state(name)
            exc = apply_change(handle, change)
            if exc is not None:
                self.diags.append(f"format change {change!r} of {name} raises {exc[:200]}")
            self.changes.setdefault(name, []).append(change)
            if name in self.rendered_names:
                self.changed_after_render.add(name)
                if op == 'rmcols':
                    self.hits['columns-removed-between-renderings'] += 1
            if st_ is not None:
                if op == 'fmt' and arg.split(';')[0].strip() == '':
                    # the columns are kept: which records will the next rendering show in addition?
                    st_[0] = limits_after(arg, st_[0])
                    st_[2] = st_[1] is not None and wider_record_revealed(
                        LIMITED[name][3], st_[1], shown_records(len(_LIM_RECORDS), st_[0]))
                else:
                    self.shown[name] = None          # other columns: not followed any further
        elif op == 'churn':
            self.churn(*st[1:])
        elif op == 'churn_nocolor':
            self.churn_nocolor(*st[1:])
        else:
            raise ValueError(f"unknown step {st!r}")

    def churn(self, name, route, seed, rounds):
        """create / render / discard / collect until a discarded palette's id comes back (and a few
        rounds more), at most `rounds` rounds; stops at the first failed clause"""
        has_enum = OBJECTS[name][2]
        reused_at = None
        for r in range(rounds):
            spec = churn_spec(seed, r)
            conf = make_conf(spec)
            self.n_conf += 1
            if has_enum and r > 0:
                self.hits['enum-table-rendered-after-config-discarded'] += 1
            res = self.check(name, conf, spec, route)
            conf = None
            self.n_drop += 1
            gc.collect()
            if any(clause in ('history_independent', 'nocolor_has_no_escape') or key == 'enum-column-stale-colours'
                   for clause, key, _ in res):
                break
            if reused_at is None and self.hits['palette-id-reused-after-collection']:
                reused_at = r
            if reused_at is not None and r >= reused_at + 25 and r >= 60:
                break
        if has_enum:
            self.enum_rendered = True

    def churn_nocolor(self, name, seed, rounds):
        """every round: a brand-new palette class (whose no_color palette does not exist yet) is used for
        a coloured rendering under a throw-away configuration and then for the no_color rendering"""
        kind, builder, has_enum = OBJECTS[name]
        handle = self.obj(name)
        for r in range(rounds):
            spec = churn_spec(seed, r)
            tp = _fresh_palette_classes(kind)
            res = []

            def both(h):
                conf = make_conf(spec)
                if kind == 'table':
                    col = str(h.ch_text(palette=tp, colors_conf=conf))
                    conf = None
                    nc = h.ch_text(palette=tp, no_color=True)
                    return col, str(nc), nc.plain_text()
                fmt, record = h
                col = str(fmt(record, palette=tp, colors_conf=conf))
                conf = None
                nc = fmt(record, palette=tp, no_color=True)
                return col, str(nc), nc.ch_text().plain_text()
            try:
                col, noc, plain = both(handle)
            except Budget:
                raise
            except Exception as e:      # noqa
                self.diags.append(f"churn_nocolor: rendering {name} raises {type(e).__name__}: {e}")
                return
            self.n_conf += 1
            self.n_drop += 1
            self.hits['render'] += 1
            if has_enum and r > 0:
                self.hits['enum-table-rendered-after-config-discarded'] += 1
            where = f"object {name} with a new palette class, no_color rendering requested after a coloured one " \
                    f"(round {r}) under ColorsConfig({json.dumps(spec['init'], sort_keys=True)})"
            if ESC in noc or ESC in plain:
                key = 'enum-column-stale-colours' if has_enum and ESC not in strip_all(noc) else 'escape-in-nocolor'
                res.append(('nocolor_has_no_escape', key,
                            f"{where}: no_color output contains an escape character: "
                            f"{_short(noc[max(0, noc.index(ESC) - 10):][:60])}"))
            if strip_all(col) != plain:
                res.append(('strip_equals_nocolor', 'layout-differs',
                            f"{where}: text of the coloured rendering != no_color plain text; "
                            f"{first_diff(strip_all(col), plain)}"))
            self.add(res, None)
            tp = None
            gc.collect()
            if res:
                break
        if has_enum:
            self.enum_rendered = True


def _fresh_palette_classes(kind):
    """new palette classes (each has its own, not yet constructed, no_color palette)"""
    class EP(PPEnumFieldType.EnumPalette):
        pass
    base = PPTable.TablePalette if kind == 'table' else PPRecordFmt.PPRecordPalette

    class TP(base):
        SUB_PALETTES_MAP = {PPEnumFieldType.EnumPalette: EP}
    return TP


def run_history(steps, _reduce=True, server=None):
    """execute one history on the real code; returns a plain dict (picklable).
    Without `server` the calling process must not have rendered anything yet (replay)."""
    own_server = server is None
    if own_server:
        server = RefServer()
    try:
        return _run_history(steps, _reduce, server)
    finally:
        if own_server:
            server.close()


def _run_history(steps, _reduce, server):
    runner = Runner(server)
    err = None
    old_out, old_err = sys.stdout, sys.stderr
    sys.stdout, sys.stderr = io.StringIO(), io.StringIO()
    old_handler = signal.signal(signal.SIGPROF, _on_alarm)
    signal.setitimer(signal.ITIMER_PROF, HISTORY_BUDGET_S)      # CPU time of this process
    try:
        akc.set_global_colors_config(None)
        for i, st in enumerate(steps):
            runner.step = i
            runner.run_step(st)
    except Budget:
        server.broken = True
        runner.fails.append(('history_independent', 'budget-overrun',
                             f"rendering did not finish within {HISTORY_BUDGET_S} s of CPU time (step {runner.step}: "
                             f"{_short(steps[runner.step], 120)})", runner.step, None))
    finally:
        signal.setitimer(signal.ITIMER_PROF, 0)
        signal.signal(signal.SIGPROF, old_handler)
        sys.stdout, sys.stderr = old_out, old_err
        try:
            akc.set_global_colors_config(None)
        except Exception:   # noqa
            pass
    nontrivial = runner.n_conf >= 2 and runner.n_drop >= 1 and runner.enum_rendered
    fails = []
    reduced = set()
    for clause, key, text, step, ctx in runner.fails:
        case = {'steps': steps[:step + 1]}
        if ctx is not None and clause in ('strip_equals_nocolor', 'lines_equal_whole') \
                and key != 'enum-column-stale-colours':
            # clauses about one request: one representative per class and history, reported as the
            # request alone if it fails alone in the same way
            if (clause, key) in reduced:
                continue
            reduced.add((clause, key))
            spec, name, route, schedule = ctx
            mini = [['conf', 0, spec]] + ([['global', 0]] if route == 'global' else []) + \
                [['render', 0, name, route] + ([schedule] if schedule else [])]
            if _reduce and mini != case['steps']:
                sub = _run_history(mini, False, server)
                if any(f[1] == f"C10.{clause}:{key}" for f in sub['fails']):
                    case = {'steps': mini}
        fails.append((f"C10.{clause}", f"C10.{clause}:{key}", text, case))
    return {'case': {'steps': steps}, 'nontrivial': nontrivial, 'hits': dict(runner.hits),
            'fails': fails, 'diags': runner.diags[:5], 'error': err}


# --------------------------------------------------------------------------------------------
# generation of histories

# consumption schedules of one result object (see consume()); the curated ones rotate over the grid
SCHEDULES = [
    ['iter', 'iter'],                                   # lines, lines again
    [['take', 2], 'iter', 'str'],                       # a pager which stopped early, then everything
    ['str', 'iter', 'plain', 'iter'],                   # whole first, lines twice
    [['take', 1], 'iter', 'resume'],                    # a paused iteration resumed after a complete one
    ['zip', 'iter'],                                    # two iterations in lockstep
    ['iter', 'str', ['take', 3], ['take', 1], 'iter'],  # two abandoned iterations
    [['take', 2], 'zip', 'resume', 'str', 'iter'],
    ['iter', ['take', 5], 'plain', 'resume', 'iter', 'iter'],
]
KINDS_WITH_RESULT = ('pp', 'table', 'ghist')      # kinds whose rendering is a lazily evaluated result object


def gen_schedule(rng):
    """2..6 consumptions of one result, at least two of them line by line"""
    while True:
        out = []
        paused = False
        for _ in range(rng.randint(2, 6)):
            r = rng.random()
            if r < 0.35:
                out.append('iter')
            elif r < 0.60:
                out.append(['take', rng.choice([1, 1, 2, 3, 5, 8, 1000])])
                paused = True
            elif r < 0.72 and paused:
                out.append('resume')
                paused = False
            elif r < 0.82:
                out.append('zip')
            elif r < 0.92:
                out.append('str')
            else:
                out.append('plain')
        if sum(1 for op in out if op in ('iter', 'zip') or isinstance(op, list)) >= 2:
            return out


def with_schedule(step, schedule):
    """the render step with a consumption schedule (kinds without a result object: unchanged)"""
    if step[0] == 'render' and len(step) == 4 and OBJECTS[step[2]][0] in KINDS_WITH_RESULT:
        return step + [schedule]
    return step


def gen_history(rng, srng=None):
    n = rng.randint(3, 12)
    steps = []
    alive = set()
    pool = rng.sample(RANDOM_POOL, 2) + [rng.choice(ENUM_OBJECTS)]
    if rng.random() < 0.5:
        pool.append(rng.choice(ENUM_OBJECTS))
    if rng.random() < 0.15:
        pool.append(rng.choice(sorted(GROUP_OF)))
    for name in list(pool):             # a table sharing a format object comes with a sibling
        if name in GROUP_OF:
            pool.append(rng.choice([n for n in GROUP_MEMBERS[GROUP_OF[name][0]] if n != name]))
    have_global = False
    while len(steps) < n:
        r = rng.random()
        if not alive or r < 0.22:
            slot = rng.randrange(3)
            steps.append(['conf', slot, gen_spec(rng)])
            alive.add(slot)
        elif r < 0.34:
            steps.append(['reg', rng.choice(sorted(alive)), rng.choice(PALETTE_NAMES), rng.random() < 0.2])
        elif r < 0.80:
            name = rng.choice(pool)
            routes = ROUTES[OBJECTS[name][0]]
            route = rng.choice(routes)
            if route == 'global' and not have_global and rng.random() < 0.7 and len(steps) < n - 1:
                steps.append(['global', rng.choice(sorted(alive))])
                have_global = True
            step = ['render', rng.choice(sorted(alive)), name, route]
            if srng is not None and srng.random() < 0.8:       # schedules come from a generator of their own
                step = with_schedule(step, gen_schedule(srng))
            steps.append(step)
        elif r < 0.93:
            slot = rng.choice(sorted(alive))
            steps.append(['drop', slot])
            alive.discard(slot)
        else:
            steps.append(['global', rng.choice(sorted(alive))])
            have_global = True
    return steps[:12]


def scripted_history(name, i):
    """every step kind around one object: render under A (256 colours), under B, drop A + gc,
    new config in A's slot, render twice, replace the global configuration, render via it"""
    kind = OBJECTS[name][0]
    routes = ROUTES[kind]
    r0 = routes[i % len(routes)]
    r1 = routes[(i + 1) % len(routes)]
    rng = random.Random(7000 + i)
    a = {'init': {sid: ATOMS[(i + j) % len(ATOMS)] for j, sid in enumerate(SYNT_IDS)}, 'no_color': False}
    b = {'init': {sid: NAMED[(i + j) % len(NAMED)] + (':bold' if j % 3 == 0 else '') for j, sid in enumerate(SYNT_IDS)},
         'no_color': False}
    c = gen_spec(rng, ids=list(SYNT_IDS))
    c['no_color'] = False
    steps = [
        ['conf', 0, a], ['render', 0, name, r0],
        ['conf', 1, b], ['reg', 1, PALETTE_NAMES[i % len(PALETTE_NAMES)], False], ['render', 1, name, r1],
        ['drop', 0], ['conf', 0, c], ['render', 0, name, r0], ['render', 0, name, r0],
        ['global', 1], ['render', 1, name, 'global'], ['render', 0, name, r1],
    ]
    return [with_schedule(st, SCHEDULES[(i + j) % len(SCHEDULES)]) for j, st in enumerate(steps)]


def shared_format_histories(tier):
    """tables built from another table's format object, rendered in every order of the group's members
    (each request is compared with the member of a fresh group, none of whose members was rendered)"""
    out = []
    specs = [{'init': {}, 'no_color': False},
             {'init': {'TEXT': 'CYAN', 'RECORD.NUMBER': '123', 'TABLE.BORDER': 'g7'}, 'no_color': False}]
    k = 0
    for g, members in GROUP_MEMBERS.items():
        for order in itertools.permutations(members):
            for spec in (specs if tier != 'quick' else specs[k % 2:k % 2 + 1]):
                route = ROUTES['table'][k % len(ROUTES['table'])]
                steps = [['conf', 0, spec]] + ([['global', 0]] if route == 'global' else [])
                steps += [['render', 0, n, route] for n in order]
                # once more, under another configuration, in reverse order
                steps += [['conf', 1, specs[(k + 1) % 2]]] + [['render', 1, n, 'conf'] for n in reversed(order)]
                out.append([with_schedule(st, SCHEDULES[(k + j) % len(SCHEDULES)]) for j, st in enumerate(steps)])
                k += 1
    return out


def format_change_histories(tier):
    """(D) the format of a table is changed between its renderings: render, change, render (, change, render).
    Limited tables (a records limit hides records with longer values): every new fmt of their catalogue -
    columns kept / all columns / named columns, limits widened, narrowed, lifted, kept - then every one
    followed by a second change; every other table: every generic fmt; removed columns."""
    out = []
    specs = [{'init': {}, 'no_color': False},
             {'init': {'TEXT': 'CYAN', 'RECORD.NUMBER': '123', 'TABLE.BORDER': 'g7'}, 'no_color': False}]

    def hist(name, changes):
        k = len(out)
        spec = specs[k % 2]
        route = ROUTES['table'][k % len(ROUTES['table'])]
        steps = [['conf', 0, spec]] + ([['global', 0]] if route == 'global' else []) + [['render', 0, name, route]]
        for ch in changes:
            steps += [[ch[0], name, ch[1]], ['render', 0, name, route]]
        out.append([with_schedule(st, SCHEDULES[(k + j) % len(SCHEDULES)]) for j, st in enumerate(steps)])

    for name in LIMITED:
        for f1 in fmts_of(name):
            hist(name, [['fmt', f1]])
            for f2 in (SECOND_FMTS if tier == 'quick' else fmts_of(name)):
                hist(name, [['fmt', f1], ['fmt', f2]])
        for f in _LIM_FIELDS:
            hist(name, [['rmcols', [f]], ['fmt', ';*']])
            hist(name, [['fmt', ';3:1'], ['rmcols', [f]]])
    for name in TABLE_NAMES:
        if name not in LIMITED:
            for f1 in (GENERIC_FMTS_QUICK if tier == 'quick' else GENERIC_FMTS):
                hist(name, [['fmt', f1]])
    return out


def gen_format_history(rng):
    """(D) a seeded random history of 4..12 steps over 2 config slots, a limited table and one more table:
    new config / render / fmt change / remove a column (once per table) / drop config; ends with a rendering"""
    pool = [rng.choice(sorted(LIMITED)), rng.choice(TABLE_NAMES)]
    n = rng.randint(3, 10)
    steps = []
    alive = set()
    removed = set()
    while len(steps) < n:
        r = rng.random()
        if not alive or r < 0.12:
            slot = rng.randrange(2)
            steps.append(['conf', slot, gen_spec(rng)])
            alive.add(slot)
        elif r < 0.50:
            name = rng.choice(pool)
            step = ['render', rng.choice(sorted(alive)), name, rng.choice(['conf', 'palette_obj', 'palette_cls', 'alt_obj'])]
            if rng.random() < 0.5:
                step = with_schedule(step, gen_schedule(rng))
            steps.append(step)
        elif r < 0.86:
            name = pool[0] if rng.random() < 0.7 else pool[1]
            steps.append(['fmt', name, rng.choice(fmts_of(name))])
        elif r < 0.92:
            name = rng.choice(pool)
            if name in LIMITED and name not in removed:
                removed.add(name)
                steps.append(['rmcols', name, [rng.choice(['id', 'status'])]])    # 'name' is in every named fmt
        else:
            slot = rng.choice(sorted(alive))
            steps.append(['drop', slot])
            alive.discard(slot)
    if not alive:
        steps.append(['conf', 0, gen_spec(rng)])
        alive.add(0)
    steps.append(['render', sorted(alive)[0], pool[0], 'conf'])
    return steps


def all_tasks(tier, seed):
    tasks = []
    # (A) exhaustive grid: every object x every grid configuration x every route
    specs = grid_specs(tier)
    for oi, name in enumerate(OBJECT_NAMES):
        for si, spec in enumerate(specs):
            routes = ROUTES[OBJECTS[name][0]]
            if tier == 'quick':         # the first route + one more, rotating; all routes in the thorough tier
                routes = [routes[0], routes[1 + (oi + si) % (len(routes) - 1)]]
            for ri, route in enumerate(routes):
                # the consumption schedule of the request rotates over the curated ones; every object
                # meets every curated schedule (>= 8 configurations x 2 routes, offsets 2 * si + ri)
                step = with_schedule(['render', 0, name, route], SCHEDULES[(oi + 2 * si + ri) % len(SCHEDULES)])
                if route == 'global':
                    tasks.append([['conf', 0, spec], ['global', 0], step])
                else:
                    tasks.append([['conf', 0, spec], step])
    n_grid = len(tasks)
    # (B) scripted histories and churns
    for i, name in enumerate(OBJECT_NAMES):
        tasks.append(scripted_history(name, i))
    churn_rounds = 100 if tier == 'quick' else 500
    for i, name in enumerate(CHURN_OBJECTS):
        for route in (('conf', 'palette_obj') if tier == 'quick' else ('conf', 'palette_obj', 'palette_cls')):
            tasks.append([['churn', name, route, i, churn_rounds if route != 'palette_cls' else churn_rounds // 2]])
    for i, name in enumerate(CHURN_OBJECTS):
        tasks.append([['churn_nocolor', name, i, churn_rounds]])
    tasks.extend(shared_format_histories(tier))
    tasks.append([['churn', 'table_plain', 'palette_obj', 1, 120]])
    tasks.append([['churn', 'pp_py', 'conf', 2, 60]])
    n_curated = len(tasks) - n_grid
    # (C) seeded random histories
    rng = random.Random(seed * 7919 + 10)
    n_rand = 300 if tier == 'quick' else 3000
    srng = random.Random(seed * 7919 + 11)
    for _ in range(n_rand):
        tasks.append(gen_history(rng, srng))
    # (D) format changes between the renderings of a table
    fmt_tasks = format_change_histories(tier)
    frng = random.Random(seed * 7919 + 12)
    n_fmt_rand = 150 if tier == 'quick' else 1500
    for _ in range(n_fmt_rand):
        fmt_tasks.append(gen_format_history(frng))
    tasks.extend(fmt_tasks)
    return tasks, {'grid': n_grid, 'curated': n_curated, 'random': n_rand, 'grid_configs': len(specs),
                   'format_change': len(fmt_tasks) - n_fmt_rand, 'format_change_random': n_fmt_rand}


def _work(chunk, server=None):
    out = []
    if server is not None:
        return _work_chunk(chunk, server, out)
    server = RefServer()        # this process is a fresh fork of the parent, which never renders
    try:
        return _work_chunk(chunk, server, out)
    finally:
        server.close()


def _work_chunk(chunk, server, out):
    for steps in chunk:
        if server.broken:
            out.append({'case': {'steps': steps}, 'nontrivial': False, 'hits': {}, 'fails': [], 'diags': [],
                        'error': "history not run: an earlier history of the chunk overran its time budget"})
            continue
        try:
            out.append(run_history(steps, server=server))
        except Exception as e:      # noqa  (an exception in the harness itself)
            import traceback
            out.append({'case': {'steps': steps}, 'nontrivial': False, 'hits': {}, 'fails': [], 'diags': [],
                        'error': f"harness exception on {_short(steps, 200)}: {type(e).__name__}: {e}\n"
                                 f"{traceback.format_exc()[-600:]}"})
    return out


REQUIRED_REACH = [
    'palette-id-reused-after-collection',
    'enum-table-rendered-after-config-discarded',
    'enum-table-rerendered-under-same-config',
    'two-enum-columns-share-sub-palette',
    'config-256-colours',
    'global-config-replaced',
    'same-result-consumed-twice',
    'nocolor-requested-twice',
    'table-sharing-format-object-with-rendered-table',
    'same-result-iterated-twice',
    'result-iterated-after-partial-iteration',
    'paused-iteration-resumed-after-another-iteration',
    'two-iterations-of-one-result-interleaved',
    'result-iterated-before-and-after-whole-text',
    'table-format-changed-between-renderings',
    'columns-kept-fmt-change-reveals-wider-hidden-record',
    'columns-removed-between-renderings',
]


def run(b):
    tasks, sizes = all_tasks(b.tier, b.seed)
    b.notes['sizes'] = sizes
    b.notes['git_mock'] = 'tests.mock_git' if _mock_git is not None else 'hand-made report data (tests.mock_git not importable)'
    nproc = max(1, min(16, os.cpu_count() or 1))
    heavy = [t for t in tasks if t[0][0].startswith('churn')]
    light = [t for t in tasks if not t[0][0].startswith('churn')]
    chunk = 30
    chunks = [[t] for t in heavy] + [light[i:i + chunk] for i in range(0, len(light), chunk)]
    if nproc == 1:
        server = RefServer()
        try:
            results = [_work(c, server) for c in chunks]
        finally:
            server.close()
    else:
        ctx = multiprocessing.get_context('fork')
        # one process per chunk: every chunk starts from the parent's (untouched) interpreter state
        with ctx.Pool(nproc, maxtasksperchild=1) as pool:
            results = pool.map(_work, chunks, chunksize=1)
    for res in results:
        for rec in res:
            b.case(rec['case'], nontrivial=rec['nontrivial'])
            for ev, n in rec['hits'].items():
                if ev != 'render':
                    b.hit(ev, n)
            b.count(rec['hits'].get('render', 0))
            for obligation, key, text, case in rec['fails']:
                b.fail(obligation, key, text, case)
            for d in rec['diags']:
                b.diag(d)
            if rec['error']:
                b.error(rec['error'])
    b.require_reach(REQUIRED_REACH)


def replay_case(case):
    rec = run_history(case['steps'])
    if rec['error']:
        raise RuntimeError(rec['error'])
    seen = []
    for obligation, key, text, _ in rec['fails']:
        if (key, text) not in seen:
            seen.append((key, text))
    return (not rec['fails']), [f"{k}: {t}" for k, t in seen[:10]]
