"""C02 helper: several parsers built in ONE process from SHARED description objects, each judged by its own grammar.

The arguments of the LLParser constructor are descriptions written by the caller: a tokenizer pattern, a productions
dict {symbol: [alternatives]} whose alternatives are tuples of symbol names or an `AnyTokenExcept(*tokens)` object
("one one-token production '(token,)' for each token except the specified ones" - its docstring).  Descriptions are
re-used: a module level constant ANY_BUT_X = AnyTokenExcept('x') appears in the grammars of several parsers, a
productions dict is written once and given to parsers with different tokenizers.  The property speaks about THE
grammar of a parser; for a parser constructed with the tokenizer K from the template T that is

    expand(T, K) = T with every AnyTokenExcept(ex) alternative replaced by the alternatives (t,), t in K - ex,

where K = the token kinds of THAT parser's tokenizer (its named groups), whatever other parsers were constructed
before or after from the same objects.  Nothing in this file looks at the implementation: `expand` is the
docstring, the verdicts come from harness/grammars.py (PREDICT sets, Earley, brute force) through c02.evaluate.

A template is {symbol: [alternative, ...]}; an alternative is a tuple of symbol names or a marker dict
{'any_token_except': [token, ...], 'object': 'X1'}: markers with the same 'object' are ONE AnyTokenExcept instance.

A session = (template, start, a sequence of tokenizers (visible token kinds; SPACE is added and skipped), a sharing
mode, a schedule):
    sharing   'new dict and lists per parser, the same AnyTokenExcept objects'  (module constant in several literals)
              'one productions dict object for all parsers'                     (grammar written once)
              'everything written anew for every parser'                        (control: nothing shared)
    schedule  'all parsers constructed, then all used'  |  'each parser used before the next one is constructed'
Every tokenizer of the sequence gives two parsers (smart_factorization True and False) built from the same objects.
"""
import zlib

from harness import grammars as gr

SPACE = 'SPACE'
SFX_SHARED = ':only-when-the-description-objects-were-already-used-for-another-parser'

SHARE_ANY = 'new dict and lists per parser, the same AnyTokenExcept objects'
SHARE_DICT = 'one productions dict object for all parsers'
SHARE_NONE = 'everything written anew for every parser'
SHARINGS = [SHARE_ANY, SHARE_DICT]
SCHED_ALL = 'all parsers constructed, then all used'
SCHED_EACH = 'each parser used before the next one is constructed'
SCHEDULES = [SCHED_ALL, SCHED_EACH]

# sequences of tokenizers (visible token kinds).  Every AnyTokenExcept of the family excludes only tokens that all
# tokenizers know ('a', 'b', SPACE): naming an unknown token is documented as a grammar error.
TOKEN_SEQS = [
    ('more', [['a', 'b'], ['a', 'b', 'c']]),
    ('fewer', [['a', 'b', 'c'], ['a', 'b']]),
    ('more-more', [['a', 'b'], ['a', 'b', 'c'], ['a', 'b', 'c', 'd']]),
    ('same', [['a', 'b'], ['a', 'b']]),
    ('more-fewer', [['a', 'b'], ['a', 'b', 'c'], ['a', 'b']]),
    ('other', [['a', 'b', 'c'], ['a', 'b', 'd']]),
]


def any_except(obj, *tokens):
    return {'any_token_except': list(tokens), 'object': obj}


def is_marker(alt):
    return isinstance(alt, dict)


# definitions of the 'any token' symbols: I alone, or I and J (one AnyTokenExcept object in the productions of two
# symbols / two objects)
I_DEFS = [
    ('I -> any but a', {'I': [any_except('X1', 'a')]}),
    ('I -> any but a, b', {'I': [any_except('X1', 'a', 'b')]}),
    ('I -> any but b | b b', {'I': [any_except('X1', 'b'), ('b', 'b')]}),
    ('I -> a I | any but a, SPACE', {'I': [('a', 'I'), any_except('X1', 'a', SPACE)]}),
]
IJ_DEFS = [
    ('I, J -> the same object: any but a', {'I': [any_except('X1', 'a')], 'J': [any_except('X1', 'a')]}),
    ('I -> any but a; J -> any but a, b', {'I': [any_except('X1', 'a')], 'J': [any_except('X2', 'a', 'b')]}),
    ('I -> any but b; J -> b | the same object', {'I': [any_except('X1', 'b')], 'J': [('b',), any_except('X1', 'b')]}),
]

# (label, number of plain nonterminals, their names, pseudo-terminals, max alternatives, max RHS, max occurrences, defs)
SHAPES = {
    'quick': [('E+I', 1, {'N0': 'E'}, ['a', 'b', 'I'], 2, 3, 4, I_DEFS),
              ('E,A+I', 2, {'N0': 'E', 'N1': 'A'}, ['a', 'b', 'I'], 2, 3, 3, I_DEFS),
              ('E+I,J', 1, {'N0': 'E'}, ['a', 'I', 'J'], 2, 3, 4, IJ_DEFS)],
    'thorough': [('E+I', 1, {'N0': 'E'}, ['a', 'b', 'I'], 2, 3, 5, I_DEFS),
                 ('E,A+I', 2, {'N0': 'E', 'N1': 'A'}, ['a', 'b', 'I'], 2, 3, 3, I_DEFS),
                 ('E+I,J', 1, {'N0': 'E'}, ['a', 'I', 'J'], 2, 3, 5, IJ_DEFS)],
}


def rule_text(tier):
    fams = []
    for label, n_nt, names, pseudo, max_alts, max_rhs, max_total, defs in SHAPES[tier]:
        fams.append(f"{label}: every grammar of {n_nt} nonterminal(s) {sorted(names.values())} over {pseudo} "
                    f"(<= {max_alts} alternatives, RHS <= {max_rhs}, <= {max_total} symbol occurrences) in which every "
                    f"'any token' symbol occurs, times the definitions [{'; '.join(d for d, _ in defs)}]")
    return ("Shared description objects: templates whose 'any token' symbols I, J are defined with AnyTokenExcept "
            "objects (exhaustive: " + ' || '.join(fams) + "), not left-recursive after expansion; per template "
            + ("one sequence" if tier == 'quick' else "two sequences (one of them with a growing step)")
            + " of tokenizers out of [" + '; '.join(f"{lab}: {seq}" for lab, seq in TOKEN_SEQS) + "] (a blank-skipping "
            "SPACE kind is added to each), chosen by the CRC32 of the template's text together with the sharing mode ["
            + '; '.join(SHARINGS) + "] and the schedule [" + '; '.join(SCHEDULES) + "]; for every tokenizer of the "
            "sequence two parsers (smart_factorization True / False) are constructed from the SAME AnyTokenExcept "
            "objects, and each pair is a case of its own judged with all clauses above against the template expanded "
            "with the token kinds of its own tokenizer (independent of the implementation: the docstring of "
            "AnyTokenExcept), every token string up to " + ('4' if tier == 'quick' else '5') + " tokens (3 when a "
            "tokenizer of the session has four visible token kinds) and the list-of-lines session; a failing pair is "
            "evaluated once more with freshly written objects to name the class of the failure.")


def template_str(T):
    def alt(a):
        if is_marker(a):
            return f"AnyTokenExcept{tuple(a['any_token_except'])!r}#{a['object']}".replace(",)", ")")
        return ' '.join(a) if a else 'eps'
    return '; '.join(f"{x} -> " + ' | '.join(alt(a) for a in alts) for x, alts in T.items())


def template_to_json(T):
    return {x: [dict(a) if is_marker(a) else list(a) for a in alts] for x, alts in T.items()}


def template_from_json(J):
    return {x: [dict(a) if is_marker(a) else tuple(a) for a in alts] for x, alts in J.items()}


def expand(T, token_kinds):
    """the grammar the template describes for a parser whose tokenizer knows exactly `token_kinds`"""
    G = {}
    for x, alts in T.items():
        out = []
        for a in alts:
            if is_marker(a):
                out.extend((t,) for t in sorted(token_kinds) if t not in a['any_token_except'])
            else:
                out.append(tuple(a))
        G[x] = out
    return G


def in_scope(T, start, visible):
    """-> (G, None) or (None, reason): the expanded grammar is in the quantifier of C02 and every AnyTokenExcept
    names only token kinds of this tokenizer"""
    kinds = list(visible) + [SPACE]
    for alts in T.values():
        for a in alts:
            if is_marker(a) and not set(a['any_token_except']) <= set(kinds):
                return None, 'AnyTokenExcept names a token the tokenizer does not know (documented grammar error)'
    G = expand(T, kinds)
    if not gr.well_formed(G, start, kinds):
        return None, 'expanded grammar not well-formed (an alternative twice / undefined symbol)'
    if len(gr.reachable(G, start)) != len(G):
        return None, 'a nonterminal is unreachable'
    if gr.left_recursive(G):
        return None, 'left-recursive'
    return G, None


def templates(tier, part=None):
    """every template of the families of the tier (deterministic order); part=(i, n): the i-th of n parts"""
    idx = 0
    for label, n_nt, names, pseudo, max_alts, max_rhs, max_total, defs in SHAPES[tier]:
        anys = [s for s in pseudo if s in ('I', 'J')]
        for shape in gr.enumerate_grammars(n_nt, pseudo, max_alts, max_rhs, max_total):
            used = {s for alts in shape.values() for a in alts for s in a}
            if not all(s in used for s in anys):
                continue
            G0 = gr.rename(shape, names)
            for dname, d in defs:
                idx += 1
                if part is not None and idx % part[1] != part[0]:
                    continue
                T = {x: list(alts) for x, alts in G0.items()}
                for x, alts in d.items():
                    T[x] = [dict(a) if is_marker(a) else tuple(a) for a in alts]
                yield label, T, names['N0']


def sessions_of(T, tier):
    """the sessions of one template: (sequence label, token sets, sharing, schedule), deterministic in T's text"""
    h = zlib.crc32(('shared:' + template_str(T)).encode())
    if tier == 'quick':
        picks = [h % len(TOKEN_SEQS)]
    else:                               # two sequences, at least one of them with a growing step
        picks = [h % len(TOKEN_SEQS), (h + 3) % len(TOKEN_SEQS)]
    out = []
    for j, i in enumerate(picks):
        lab, seq = TOKEN_SEQS[i]
        out.append((lab, seq, SHARINGS[(h // 7 + j) % 2], SCHEDULES[(h // 14 + j // 2 + i) % 2]))
    return out


def max_len_for(token_sets, tier):
    widest = max(len(t) for t in token_sets)
    if tier == 'quick':
        return 4 if widest <= 3 else 3
    return 5 if widest <= 3 else 3


# ---------------------------------------------------------------------------------------------
# drivers of the code under test
# ---------------------------------------------------------------------------------------------

def make_objects(T):
    """one AnyTokenExcept instance per 'object' name of the template"""
    from ak import llparser
    objs = {}
    for alts in T.values():
        for a in alts:
            if is_marker(a) and a['object'] not in objs:
                objs[a['object']] = llparser.AnyTokenExcept(*a['any_token_except'])
    return objs


def make_dict(T, objs):
    return {x: [objs[a['object']] if is_marker(a) else tuple(a) for a in alts] for x, alts in T.items()}


def same_description(D, snapshot):
    """the productions dict still holds the very objects the caller put there"""
    if list(D) != [x for x, _ in snapshot]:
        return False
    for x, alts in snapshot:
        cur = D[x]
        if len(cur) != len(alts) or any(c is not o and c != o for c, o in zip(cur, alts)):
            return False
        if any((not isinstance(o, tuple)) and c is not o for c, o in zip(cur, alts)):
            return False
    return True


def construct(visible, productions, start, smart):
    from ak import llparser
    return llparser.LLParser(gr.tokenizer_for(visible), productions=productions, start_symbol_name=start,
                             smart_factorization=smart)


# ---------------------------------------------------------------------------------------------
# one session
# ---------------------------------------------------------------------------------------------

def session_case(T, start, token_sets, sharing, schedule, L, rsteps, parser=None, w=None):
    c = {'kind': 'shared-description-objects', 'template': template_to_json(T), 'declaration_order': list(T),
         'start': start, 'token_sets': [list(t) for t in token_sets], 'sharing': sharing, 'schedule': schedule,
         'max_len': L, 'reparse_steps': rsteps}
    if parser is not None:
        c['parser'] = parser
    if w is not None:
        c['input'] = list(w)
    return c


def relation(token_sets, k):
    if k == 0:
        return 'first'
    cur, prev = set(token_sets[k]), set(token_sets[k - 1])
    return 'same' if cur == prev else 'more' if cur > prev else 'fewer' if cur < prev else 'other'


def run_session(T, start, token_sets, sharing, schedule, L, rsteps, evaluate, wall_s=10.0):
    """-> dict(builds=[(k, visible, G_k, result of evaluate)], fails=[(clause, keysuffix, text, k, w)], diags, hits,
               stats, errors, skipped=None or reason)"""
    from collections import Counter
    out = {'builds': [], 'fails': [], 'diags': [], 'hits': Counter(), 'stats': Counter(), 'errors': [],
           'skipped': None}
    hits, stats, diags = out['hits'], out['stats'], out['diags']
    scoped = []
    for v in token_sets:
        G, why = in_scope(T, start, v)
        if G is None:
            out['skipped'] = why
            stats['shared:sessions-outside-the-quantifier:' + why.split(' (')[0]] += 1
            return out
        scoped.append(G)
    ts = template_str(T)
    kind, objs, _ = gr.guarded(lambda: make_objects(T), wall_s=wall_s)
    if kind != 'ok':
        diags.append(f"shared objects: AnyTokenExcept(...) itself fails ({kind}: {objs!r}) for [{ts}]: nothing of C02 "
                     f"can be observed")
        stats['shared:objects-not-constructed'] += 1
        return out
    D = make_dict(T, objs)
    snapshot = [(x, list(alts)) for x, alts in D.items()]

    def productions():
        if sharing == SHARE_DICT:
            return D
        if sharing == SHARE_ANY:
            return make_dict(T, objs)
        return make_dict(T, make_objects(T))

    def build(k, smart):
        return construct(token_sets[k], productions(), start, smart)

    prebuilt = {}
    if schedule == SCHED_ALL:
        for k in range(len(token_sets)):
            for smart in (True, False):
                kind, val, _ = gr.guarded(lambda: build(k, smart), wall_s=wall_s)
                prebuilt[k, smart] = (kind, val)

    def factory_of(k):
        def factory(smart):
            if (k, smart) not in prebuilt:
                return build(k, smart)
            kind, val = prebuilt[k, smart]
            if kind == 'ok':
                return val
            if kind == 'exc':
                raise val
            raise gr.BudgetExceeded(str(val))
        return factory

    def fresh_factory_of(k):
        return lambda smart: construct(token_sets[k], make_dict(T, make_objects(T)), start, smart)

    stats['shared:sessions'] += 1
    two_symbols = any(sum(1 for alts in T.values() if any(is_marker(a) and a['object'] == o for a in alts)) >= 2
                      for o in objs)
    n = len(token_sets)
    for k, visible in enumerate(token_sets):
        if sharing == SHARE_DICT and not same_description(D, snapshot):
            diags.append(f"supporting: the LLParser constructor changed the caller's productions dict "
                         f"[{ts}] -> {D!r}; the session stops here (later parsers would be built from another text)")
            stats['shared:sessions-stopped:productions-dict-changed-by-the-constructor'] += 1
            break
        G = scoped[k]
        r = evaluate(G, start, list(visible), L, rsteps, factory=factory_of(k))
        out['builds'].append((k, list(visible), G, r))
        out['errors'].extend(r['errors'])
        stats.update({'shared:' + a: b for a, b in r['stats'].items()})
        hits.update({'shared:' + a: b for a, b in r['hits'].items()})
        for d in r['diags']:
            diags.append('shared objects: ' + d)
        rel = relation(token_sets, k)
        if r['nontrivial']:
            hits['shared:language-checked:' + ('the first parser of the session' if k == 0 else
                                               f"a parser with {rel} token kinds than the one constructed before it"
                                               if rel in ('more', 'fewer') else
                                               f"a parser with {rel} token kinds as the one constructed before it")] += 1
            hits['shared:sharing:' + sharing] += 1
            hits['shared:schedule:' + schedule] += 1
            if two_symbols:
                hits['shared:one-AnyTokenExcept-object-in-the-productions-of-two-symbols'] += 1
            if k:
                known = set().union(*map(set, token_sets[:k]))
                new = set(visible) - known
                if new and any(any(t in new for t in w) for w in gr.language_upto(G, L)[start]):
                    hits['shared:sentence-with-a-token-kind-no-earlier-parser-of-the-session-knew'] += 1
                    if r['hits'].get('ll1'):
                        hits['shared:sentence-with-a-token-kind-no-earlier-parser-of-the-session-knew:ll1'] += 1
                gone = known - set(visible)
                if gone:
                    hits['shared:a-token-kind-of-an-earlier-parser-is-unknown-to-this-one'] += 1
        if r['fails']:
            base = set()
            if sharing != SHARE_NONE:
                r0 = evaluate(G, start, list(visible), L, rsteps, factory=fresh_factory_of(k))
                out['errors'].extend(r0['errors'])
                base = {(c, s) for c, s, _, _ in r0['fails']}
            note = (f" [parser pair {k + 1} of {n} of one process, token kinds {list(visible)}, constructed from the "
                    f"template [{ts}] ({sharing}; {schedule}; token kinds of the tokenizers in construction order: "
                    f"{[list(t) for t in token_sets]}); the grammar of this parser is the template with every "
                    f"AnyTokenExcept replaced by one alternative per token kind of ITS tokenizer")
            for clause, ksuf, text, w in r['fails']:
                if sharing != SHARE_NONE and (clause, ksuf) not in base:
                    ksuf += SFX_SHARED
                    text += note + ("; the clause holds for parsers constructed with the same tokenizer from freshly "
                                    "written description objects]")
                else:
                    text += note + ']'
                out['fails'].append((clause, ksuf, text, k, w))
    return out
