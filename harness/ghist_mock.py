"""In-memory repository for driving ak.ghist (C06 / C07 drivers).

Unlike the suite's tests/mock_git.py (a description language that always chains a commit to the
previous line and therefore grows every history from one root), a repository here is built from
a plain JSON-able *history*:

    {'name': 'r',
     'commits': [{'id': 3, 'parents': [1, 2], 'msg': 'BUG-1 x', 't': 120,
                  'tags': ['build_7_release_1_2_success'], 'files': {'DEPENDS': '{"lib": "1.0.4"}'}}, ...],
     'branches': [['release/1.2', 3], ['master', 5]]}

* any commit DAG (merges, several roots, commits reachable from no head), parents are ids;
* branch heads anywhere (several branches may name the same commit), in the given ref order;
* any number of tags on any commit (build tags and others);
* 't' is the commit time in seconds after BASE_TIME; 'files' is the commit's tree.

Only what ak.ghist touches is provided: repo.remotes[remote].refs[*].name, repo.iter_refs(),
repo.commit(hexsha), repo.git_dir, commit.hexsha/parents/message/committed_date/author.name/tree,
tree / path -> blob.hexsha / blob.data_stream.
"""
import hashlib
import io
import json
import re

from ak import ghist

BASE_TIME = 1_600_000_000
REMOTE = 'origin'

_AUTHORS = ["V. Arnold", "Richard Feynman", "Euler", "Linus B. Torvalds", "Stanislav Lem"]

RE_BUILD_TAG = re.compile(r"build_(\d+)_(.*)_success$")
RE_RELEASE_IN_TAG = re.compile(r"release_(\d+)_(\d+)$")


class MAuthor:
    __slots__ = ('name',)

    def __init__(self, name):
        self.name = name


class MBlob:
    def __init__(self, contents):
        self.data = contents.encode() if isinstance(contents, str) else bytes(contents)
        self.hexsha = hashlib.sha1(b'blob' + self.data).hexdigest()

    @property
    def data_stream(self):
        return io.BytesIO(self.data)


class MTree:
    def __init__(self, files, descr):
        self._descr = descr
        self._files = {p: MBlob(c) for p, c in files.items()}

    def __truediv__(self, path):
        try:
            return self._files[path]
        except KeyError:
            raise KeyError(f"file '{path}' does not exist in {self._descr}") from None


class MCommit:
    def __init__(self, repo_name, d):
        self.intid = d['id']
        self.hexsha = hashlib.sha1(f"{repo_name}/{self.intid}".encode()).hexdigest()
        self.parent_ids = list(d.get('parents', []))
        self.parents = ()
        self.message = d.get('msg', '')
        self.committed_date = BASE_TIME + int(d.get('t', 0))
        self.authored_date = self.committed_date
        self.tags = list(d.get('tags', []))
        self.author = MAuthor(_AUTHORS[self.intid % len(_AUTHORS)])
        self.tree = MTree(d.get('files', {}), f"commit {self.intid}")

    def __repr__(self):
        return f"MCommit({self.intid} {self.hexsha[:8]} {self.message!r})"

    # git.Commit objects are hashable and compare by identity of the object id
    def __eq__(self, other):
        return isinstance(other, MCommit) and other.hexsha == self.hexsha

    def __hash__(self):
        return hash(self.hexsha)


class MRef:
    def __init__(self, name, commit):
        self.name = name
        self.commit = commit
        self.hexsha = commit.hexsha


class MRemote:
    def __init__(self, name, refs):
        self.name = name
        self.refs = refs


class MockRepo:
    """what ak.ghist needs from git.Repo, over a history dict"""

    def __init__(self, hist):
        self.name = hist.get('name', 'r')
        self.git_dir = f"/nonexistent/{self.name}/.git"
        self.working_dir = f"/nonexistent/{self.name}"
        self.by_id = {}
        for d in hist['commits']:
            c = MCommit(self.name, d)
            if c.intid in self.by_id:
                raise ValueError(f"duplicate commit id {c.intid}")
            self.by_id[c.intid] = c
        for c in self.by_id.values():
            c.parents = tuple(self.by_id[p] for p in c.parent_ids)
        self.by_hexsha = {c.hexsha: c for c in self.by_id.values()}
        self.refs = []                      # [(full ref name, MCommit)] in supply order
        for bname, head in hist['branches']:
            self.refs.append((f"refs/remotes/{REMOTE}/{bname}", self.by_id[head]))
        for c in self.by_id.values():
            for t in c.tags:
                self.refs.append((f"refs/tags/{t}", c))
        pref = f"refs/remotes/{REMOTE}/"
        self.remotes = {REMOTE: MRemote(REMOTE, [MRef(f"{REMOTE}/{n[len(pref):]}", c)
                                                   for n, c in self.refs if n.startswith(pref)])}

    def commit(self, hexsha):
        return self.by_hexsha[hexsha]

    def iter_refs(self, *prefixes):
        for name, c in self.refs:
            if any(name.startswith(p) for p in prefixes):
                yield name, c.hexsha

    def get_ref_commit(self, ref_name):
        for name, c in self.refs:
            if name == ref_name:
                return c
        raise KeyError(ref_name)


class HarnessProjectRepo(ghist.ProjectRepo):
    """project conventions of the harness: VERSION holds 'major.minor[.patch]', the pins of the
    components are a JSON object {"component": "major.minor.patch"} in the file DEPENDS"""
    _SAVED_BUILD_NUM_SOURCES = ["VERSION"]

    def _read_saved_build_num_from_file(self, blob, path):
        nums = [int(x) for x in blob.data_stream.read().decode().strip().split('.')]
        while len(nums) < 3:
            nums.append(None)
        return ghist.BuildNumData(nums[0], nums[1], nums[2])

    def read_components_from_file(self, v_file_path, blob):
        d = json.load(blob.data_stream)
        return {k: [int(x) for x in v.split('.')] for k, v in d.items()}


def project_class(components=()):
    """a ProjectRepo class whose component pins live in DEPENDS"""
    comps = {c: 'DEPENDS' for c in components}

    class _Project(HarnessProjectRepo):
        _COMPONENTS_VERSIONS_LOCATIONS = comps
    return _Project


def project(repo_id, hist, components=()):
    return project_class(components)(repo_id, MockRepo(hist), REMOTE)


# ---- helpers over history dicts (no ak code involved) -------------------------------------------

def parse_build_tag(tag):
    """'build_7_release_1_2_success' -> ('1.2.7'); master-style tags -> (None, build) ; else None"""
    m = RE_BUILD_TAG.match(tag)
    if not m:
        return None
    return int(m.group(1)), m.group(2)


def is_build_commit(d):
    return any(parse_build_tag(t) is not None for t in d.get('tags', []))


def release_tag(build, major, minor):
    return f"build_{build}_release_{major}_{minor}_success"


def from_suite_lines(name, *lines):
    """the description language of tests/mock_git.py -> history dict (to transcribe the suite's
    scenarios verbatim; re-implemented here, the suite's module is not imported)"""
    commits = []
    branches = []
    prev = None
    extra = []
    for line in reversed(lines):
        line = line.strip()
        if not line:
            continue
        if line.startswith('branch:'):
            b = line[7:].strip()
            assert b.startswith(REMOTE + '/')
            branches.append([b[len(REMOTE) + 1:], prev])
            continue
        if line.startswith('-->'):
            extra.append(line[3:])
            continue
        full = line + ''.join(reversed(extra))
        extra = []
        chunks = [c.strip() for c in full.split('|')]
        idc = chunks[0].split('<-', 1)
        cid = int(idc[0])
        parents = [int(x) for x in idc[1].split(',')] if len(idc) == 2 else ([prev] if prev is not None else [])
        d = {'id': cid, 'parents': parents, 't': cid * 47 % 80000}
        for ch in chunks[1:]:
            if not ch:
                continue
            if ch.startswith('tags:'):
                d['tags'] = [t.strip() for t in ch[5:].split(',')]
            elif ch.startswith('file:'):
                _, path, contents = ch.split(':', 2)
                d.setdefault('files', {})[path.strip()] = contents
            else:
                d['msg'] = ch
        commits.append(d)
        prev = cid
    return {'name': name, 'commits': commits, 'branches': branches}
