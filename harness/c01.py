"""C01 bounded driver: every tree returned by LLParser.parse(text, do_cleanup=False) is a derivation
of the USER's grammar whose yield is the token list of the input.

Top-level clauses (from the property statement), checked for every grammar the constructor accepts,
every enumerated input and both smart_factorization settings, whenever parse returns a tree T:
  root_is_start                  T.name == start symbol
  nodes_are_user_productions     every node whose name is a non-terminal: (child names) is one of the
                                 productions the user supplied for that name; childless <=> the user
                                 supplied the empty production; terminal nodes carry a token value
  yield_is_tokens                leaves left to right == (name, value) of the non-skipped tokens of the
                                 input (known by construction: the text is rendered from the token list, and
                                 cross-checked against the reference tokenizer c01_gen.spec_tokens written
                                 from the constructor's documentation: synonyms rename regex groups, keyword
                                 entries are keyed by the TOKEN name, i.e. the name after synonyms)
  no_helper_symbols              no node name contains '__'
Sequence templates: a symbol declared with ProdSequence(s1, ..) appears in the raw tree as ONE node whose
value is the list of the matched element nodes ('<SEQ>__ELEMENT' never appears on the unchanged tree, so
no_helper_symbols is demanded unchanged); it is flattened for yield_is_tokens and its elements must be
named s1, .. (nodes_are_user_productions: the template is the production the user supplied).
Supporting (diagnostic only; not in the statement and false for ambiguous grammars on the unchanged
tree): when both settings return a tree, the trees are equal.
Calls are not independent experiments: one parser object serves many calls and the tree it returns is a
mutable object that the caller owns (LLParser.cleanup(tree) is the documented in-place rewrite of a tree
parsed with do_cleanup=False).  The statement says 'WHENEVER parse returns a tree', so for every input for
which the first raw parse returns a tree the driver continues the session on the same parser: the returned
tree is edited in place (parser.cleanup(tree) and/or overwritten by the harness), the SAME text is parsed
raw again, then parsed with do_cleanup=True, then raw once more; every raw tree returned in the session must
satisfy all four clauses on its own (failure class 'on-reparse' of each clause).
The oracle is `check_tree` below (DESIGN.md D.1 `valid_derivation`, written without the parser).
Non-termination / rejection / ParsingError are not C01's business: calls are guarded by a CPU-time
budget and such cases are skipped.
"""
import contextlib
import io
import multiprocessing
import os
import re
import signal
import sys
import zlib

from ak import llparser

from harness import c01_gen as gen

CTOR_BUDGET_S = 1.0
PARSE_BUDGET_S = 0.25
MAX_NODES = 20000

REQUIRED_REACH = [
    'tree-after-rollback-with-collected-children',
    'factorization-applied',
    'suffix-splice-node',
    'nested-suffix-node',
    'nested-suffix-empty-remainder-node',
    'undone-factorization',
    'empty-production-node',
    'ambiguous-table-tree',
    'keyword-token-leaf',
    'synonym-token-leaf',
    'keyword-keyed-by-synonym-name-leaf',
    'keyword-and-plain-reading-both-derivable',
    'token-value-is-part-of-token-text',
    'skipped-token-in-input',
    'custom-skip-set',
    'sequence-node',
    'sequence-reparsed-at-later-token-after-rollback',
    'raw-reparse-of-same-text-after-documented-cleanup-of-returned-tree',
    'raw-reparse-of-same-text-after-returned-tree-was-overwritten',
    'raw-reparse-of-same-text-after-do-cleanup-parse',
    'other-kind-token-carries-keyword-text',
    'other-kind-token-and-keyword-reading-both-derivable',
    'same-text-is-keyword-of-two-token-kinds',
]


# ---------------------------------------------------------------------------------------------
# guards

class _Budget(BaseException):
    pass


def _on_alarm(signum, frame):
    raise _Budget()


def _arm():
    signal.signal(signal.SIGVTALRM, _on_alarm)


def guarded(fn, budget_s):
    """-> ('ok', value) | ('budget', None) | ('exc', exception).  CPU-time budget (ITIMER_VIRTUAL):
    independent of machine load."""
    try:
        signal.setitimer(signal.ITIMER_VIRTUAL, budget_s)
        try:
            r = fn()
        finally:
            signal.setitimer(signal.ITIMER_VIRTUAL, 0)
        return 'ok', r
    except _Budget:
        return 'budget', None
    except BaseException as e:      # noqa  (code under test may raise anything)
        if isinstance(e, KeyboardInterrupt):
            raise
        return 'exc', e


@contextlib.contextmanager
def quiet():
    old_err, old_out = sys.stderr, sys.stdout
    sys.stderr = io.StringIO()
    sys.stdout = io.StringIO()
    try:
        yield
    finally:
        sys.stderr, sys.stdout = old_err, old_out


# ---------------------------------------------------------------------------------------------
# observation hook (reach events only, never part of a verdict): roll-backs with collected children

STATE = {'rb_children': 0, 'rb_empty': 0, 'seq_names': (), 'discarded': []}
_HOOK = {'orig': None}


def _coords(t):
    return tuple(t.start_pos.coords)


def _note_discarded_sequences(values):
    """sequence nodes (ProdSequence symbols) among the children that a roll-back throws away:
    (name, start coordinates of the 2nd, 3rd... element)"""
    names = STATE['seq_names']
    todo = list(values)
    n = 0
    while todo and n < 200:
        t = todo.pop()
        n += 1
        v = getattr(t, 'value', None)
        if not isinstance(v, list):
            continue
        if getattr(t, 'name', None) in names:
            if len(v) >= 2:
                STATE['discarded'].append((t.name, {_coords(c) for c in v[1:]}))
        else:
            todo.extend(v)


def install_hooks():
    se = getattr(llparser, '_StackElement', None)
    orig = getattr(se, 'switch_to_next_prod', None)
    if orig is None or _HOOK['orig'] is not None:
        return

    def switch_to_next_prod(self):
        try:
            if self.values:
                STATE['rb_children'] += 1
                if STATE['seq_names']:
                    _note_discarded_sequences(self.values)
            else:
                STATE['rb_empty'] += 1
        except Exception:       # noqa
            pass
        return orig(self)

    _HOOK['orig'] = orig
    se.switch_to_next_prod = switch_to_next_prod


def remove_hooks():
    if _HOOK['orig'] is not None:
        llparser._StackElement.switch_to_next_prod = _HOOK['orig']
        _HOOK['orig'] = None


# ---------------------------------------------------------------------------------------------
# the oracle

def check_tree(root, G, start, terminals, exp, SEQ=None):
    """-> (fails, dump, events).  fails = [(clause, class, text)]; dump = nested tuples of the tree.
    SEQ = {sequence symbol: allowed element names} for symbols declared with ProdSequence: the raw tree
    holds one node per sequence whose value is the list of the matched element nodes (possibly empty);
    it is flattened for the yield, and its elements must be symbols the user listed in the template."""
    SEQ = SEQ or {}
    fails = []
    events = set()
    TE = llparser.TElement
    if not isinstance(root, TE):
        return None, None, events          # not a tree: nothing demanded (reported as diagnostic)
    if root.name != start:
        fails.append(('root_is_start', 'wrong-root', f"root is {root.name!r}, start symbol is {start!r}"))
    leaves = []
    seen_fail = set()

    def add(clause, cls, text):
        if (clause, cls) not in seen_fail:
            seen_fail.add((clause, cls))
            fails.append((clause, cls, text))

    count = [0]

    def walk(t):
        count[0] += 1
        if count[0] > MAX_NODES:
            raise RecursionError('tree too large or cyclic')
        name, value = t.name, t.value
        if isinstance(name, str) and '__' in name:
            add('no_helper_symbols', 'helper-name', f"node named {name!r} in the returned tree")
        if name in SEQ:
            if not isinstance(value, list) or not all(isinstance(c, TE) for c in value):
                add('nodes_are_user_productions', 'malformed-node',
                    f"sequence node {name!r} has value {value!r} (not a list of TElement)")
                return (name, repr(value))
            bad = [c.name for c in value if c.name not in SEQ[name]]
            if bad:
                add('nodes_are_user_productions', 'sequence-element-not-in-template',
                    f"sequence node {name!r} = ProdSequence{tuple(sorted(SEQ[name]))!r} has elements named {bad!r}")
            try:
                events.add(('seq', name, _coords(value[0]) if value else None, len(value)))
            except Exception:       # noqa
                pass
            return (name, ('seq',) + tuple(walk(c) for c in value))
        if name in G:
            if value is None or (isinstance(value, list) and not value):
                if () not in G[name]:
                    add('nodes_are_user_productions', 'childless-without-empty-production',
                        f"childless node {name!r} but the user gave no empty production for it")
                else:
                    events.add('empty-production-node')
                return (name, None)
            if not isinstance(value, list) or not all(isinstance(c, TE) for c in value):
                add('nodes_are_user_productions', 'malformed-node',
                    f"non-terminal node {name!r} has value {value!r} (neither None nor a list of TElement)")
                return (name, repr(value))
            sig = tuple(c.name for c in value)
            if sig not in G[name]:
                add('nodes_are_user_productions', 'not-a-user-production',
                    f"node {name!r} has children {sig!r}; user productions of {name!r}: {G[name]!r}")
            else:
                events.add(('prod', name, G[name].index(sig)))
            return (name, tuple(walk(c) for c in value))
        if name in terminals:
            if not isinstance(value, str):
                add('nodes_are_user_productions', 'malformed-node',
                    f"terminal node {name!r} has value {value!r} (not a token text)")
                if isinstance(value, list):
                    return (name, tuple(walk(c) if isinstance(c, TE) else repr(c) for c in value))
                return (name, repr(value))
            leaves.append((name, value))
            return (name, value)
        if not (isinstance(name, str) and '__' in name):
            add('nodes_are_user_productions', 'malformed-node',
                f"node name {name!r} is neither a non-terminal nor a terminal of the user's grammar")
        if isinstance(value, list):
            return (name, tuple(walk(c) if isinstance(c, TE) else repr(c) for c in value))
        if isinstance(value, str):
            leaves.append((name, value))
        return (name, value if value is None or isinstance(value, str) else repr(value))

    try:
        dump = walk(root)
    except RecursionError as e:
        add('nodes_are_user_productions', 'malformed-node', f"returned object is not a finite tree ({e})")
        return fails, None, events
    if leaves != exp:
        if len(leaves) != len(exp):
            cls = 'length'
        elif [n for n, _ in leaves] != [n for n, _ in exp]:
            cls = 'name'
        else:
            cls = 'value'
        add('yield_is_tokens', cls, f"leaves {leaves!r} != non-skipped tokens {exp!r}")
    return fails, dump, events


# ---------------------------------------------------------------------------------------------
# one grammar

def prods_arg(prods, none_style):
    d = {}
    for nt, alts in prods:
        if isinstance(alts, dict):
            d[nt] = llparser.ProdSequence(*alts['seq'])     # a fresh template object per parser
            continue
        lst = []
        for a in alts:
            if not a and none_style:
                lst.append(None)
            else:
                lst.append(tuple(a))
        d[nt] = lst
    return d


def build_parser(lex, prods, start, none_style, smart):
    L = gen.LEXICONS[lex]
    with quiet():
        return llparser.LLParser(L['tokenizer'], productions=prods_arg(prods, none_style),
                                 start_symbol_name=start, smart_factorization=smart,
                                 **gen.lexicon_kwargs(lex))


def grammar_str(prods):
    return '; '.join(f"{nt} = ProdSequence({', '.join(alts['seq'])})" if isinstance(alts, dict) else
                     f"{nt} -> " + ' | '.join('(' + ' '.join(a) + ')' for a in alts) for nt, alts in prods)


def split_grammar(prods):
    """-> (G, SEQ): ordinary productions {nt: [tuples]}, sequence templates {nt: set of element names}"""
    G = {nt: [tuple(a) for a in alts] for nt, alts in prods if not isinstance(alts, dict)}
    SEQ = {nt: frozenset(alts['seq']) for nt, alts in prods if isinstance(alts, dict)}
    return G, SEQ


def _suffix_syms(parser):
    try:
        return {k for k in parser.prods_map if isinstance(k, str) and re.search(r'__S\d', k)}
    except Exception:       # noqa
        return set()


def snapshot(t, _n=None):
    """implementation-neutral picture of whatever object graph hangs below t (used only to see whether an
    in-place edit changed the tree; never part of a verdict)"""
    n = _n if _n is not None else [0]
    n[0] += 1
    if n[0] > MAX_NODES:
        return '...'
    if isinstance(t, llparser.TElement):
        v = t.value
        return (t.name, [snapshot(c, n) for c in v] if isinstance(v, (list, tuple)) else repr(v))
    if isinstance(t, (list, tuple)):
        return [snapshot(c, n) for c in t]
    return repr(t)


def overwrite_tree(root):
    """an in-place edit of a returned tree by its owner: every node reachable from the root is renamed, the
    child lists are emptied (the list objects themselves, too) and the values dropped"""
    todo, n = [root], 0
    while todo and n < MAX_NODES:
        t = todo.pop()
        n += 1
        if not isinstance(t, llparser.TElement):
            continue
        v = t.value
        if isinstance(v, list):
            todo.extend(v)
            del v[:]
        t.name = 'overwritten-by-the-caller'
        t.value = None


SESSION_VARIANTS = ('cleanup', 'overwrite', 'cleanup+overwrite')


def continue_session(parser, text, first, G, start, terminals, exp, SEQ, smart):
    """the first raw parse of `text` returned the tree `first` (already checked).  Continue on the same parser:
    edit `first` in place, parse the same text raw again, parse it with do_cleanup=True, parse it raw again.
    -> (fails, events, diags, number of parse calls)"""
    fails, events, diags = [], set(), []
    variant = SESSION_VARIANTS[(len(text) + len(exp)) % 3]
    before = snapshot(first)
    if 'cleanup' in variant:
        st, r = guarded(lambda: parser.cleanup(first), PARSE_BUDGET_S)
        if st != 'ok':
            diags.append(('cleanup-fails',
                          f"parser.cleanup(tree of {text!r}) " + ('exceeds the budget' if st == 'budget' else
                          f"raises {type(r).__name__}: {str(r)[:100]}") + f" [smart_factorization={smart}]"))
    cleaned = snapshot(first) != before
    if 'overwrite' in variant:
        overwrite_tree(first)
    changed = snapshot(first) != before
    calls = 0
    steps = [('raw', f"parse raw; {variant} of the returned tree; parse the same text raw again")]
    steps.append(('clean', None))
    steps.append(('raw', f"parse raw; {variant} of the returned tree; parse raw; parse with do_cleanup=True; "
                         f"parse the same text raw again"))
    after_clean = False
    for kind, what in steps:
        calls += 1
        if kind == 'clean':
            st, r = guarded(lambda: parser.parse(text, do_cleanup=True), PARSE_BUDGET_S)
            after_clean = st == 'ok'
            continue
        st, r = guarded(lambda: parser.parse(text, do_cleanup=False), PARSE_BUDGET_S)
        if st == 'budget':
            # the first call of this very parse stayed within the budget: an overrun here is most likely CPU time
            # stolen on an overloaded machine; one more attempt with a larger budget before giving up
            calls += 1
            st, r = guarded(lambda: parser.parse(text, do_cleanup=False), 4 * PARSE_BUDGET_S)
        if st != 'ok':
            diags.append(('reparse-no-tree',
                          f"parse({text!r}) returned a tree, the same call repeated on the same parser "
                          + ('exceeds the budget' if st == 'budget' else f"raises {type(r).__name__}")
                          + f" [smart_factorization={smart}] (supporting: acceptance is C02's business)"))
            continue
        f, dump, ev = check_tree(r, G, start, terminals, exp, SEQ)
        if f is None:
            diags.append(('non-tree-result', f"repeated parse({text!r}) returned {type(r).__name__}, not a "
                                             f"TElement [smart_factorization={smart}]"))
            continue
        for clause, cls, t in f:
            # one class per clause: what failed is 'the tree returned by a REPEATED call', whatever its shape
            fails.append((clause, 'on-reparse',
                          f"({cls}) {t} [smart_factorization={smart}; calls on one parser: {what}]"))
        if after_clean:
            events.add('raw-reparse-of-same-text-after-do-cleanup-parse')
        else:
            if cleaned:
                events.add('raw-reparse-of-same-text-after-documented-cleanup-of-returned-tree')
                if any(e[0] == 'seq' and e[3] for e in ev if isinstance(e, tuple)):
                    events.add('sequence-tree-cleaned-up-then-same-text-reparsed')
            if changed and 'overwrite' in variant:
                events.add('raw-reparse-of-same-text-after-returned-tree-was-overwritten')
    return fails, events, diags, calls


SESSION_EVERY = {'all': 1, 'sampled': 4}


def eval_input(parsers, G, start, terminals, finfo, lexname, toks, seps, SEQ=None, sessions='all'):
    """parse one input with every accepted setting (caller silences stdout/stderr).
    sessions: 'all' = the session is continued (see continue_session) after every first parse that returns a
    tree, 'sampled' = for the texts whose CRC-32 is a multiple of 4 (quick tier).
    -> dict(fails, events, diags, status per setting, text)"""
    text = gen.make_text(toks, seps)
    exp = [(t[0], t[1]) for t in toks]          # a token is [name, value] or [name, value, text]
    L = gen.LEXICONS[lexname]
    out = {'fails': [], 'events': set(), 'diags': [], 'status': {}, 'text': text, 'reparses': 0,
           'other_kind': []}
    if L.get('kwother'):
        out['other_kind'] = gen.other_kind_keyword_readings(lexname, text)
    dumps = {}
    for smart, parser in parsers.items():
        STATE['rb_children'] = 0
        STATE['seq_names'] = SEQ or ()
        STATE['discarded'] = []
        st, res = guarded(lambda: parser.parse(text, do_cleanup=False), PARSE_BUDGET_S)
        if st == 'budget':
            out['status'][smart] = 'budget'
            continue
        if st == 'exc':
            if isinstance(res, llparser.ParsingError):
                out['status'][smart] = 'rejected'
            else:
                out['status'][smart] = 'raised'
                out['diags'].append(('parse-raises-' + type(res).__name__,
                                     f"parse({text!r}) raises {type(res).__name__}: {str(res)[:100]} "
                                     f"[smart_factorization={smart}]"))
            continue
        rb_children = STATE['rb_children']
        discarded = STATE['discarded']
        fails, dump, events = check_tree(res, G, start, terminals, exp, SEQ)
        if fails is None:
            out['status'][smart] = 'non-tree'
            out['diags'].append(('non-tree-result',
                                 f"parse({text!r}) returned {type(res).__name__}, not a TElement "
                                 f"[smart_factorization={smart}]"))
            continue
        out['status'][smart] = 'tree'
        dumps[smart] = dump
        for clause, cls, t in fails:
            out['fails'].append((clause, cls, f"{t} [smart_factorization={smart}]"))
        # ---- reach events
        ev = out['events']
        if rb_children:
            ev.add('tree-after-rollback-with-collected-children')
        suff = _suffix_syms(parser)
        for e in events:
            if e == 'empty-production-node':
                ev.add(e)
                continue
            if e[0] == 'seq':
                ev.add('sequence-node')
                _, name, c0, n = e
                if n and any(dn == name and c0 in later for dn, later in discarded):
                    ev.add('sequence-reparsed-at-later-token-after-rollback')
                continue
            _, name, idx = e
            depth, empty_rem = finfo[name].get(idx, (0, False))
            if depth >= 1 and any(s.startswith(name + '__') for s in suff):
                ev.add('suffix-splice-node')
                if depth >= 2 and any(s.startswith(name + '__') and s.count('__') >= 2 for s in suff):
                    ev.add('nested-suffix-node')
                    if empty_rem:
                        ev.add('nested-suffix-empty-remainder-node')
        try:
            if parser.is_ambiguous():
                ev.add('ambiguous-table-tree')
        except Exception:       # noqa
            pass
        names = {n for n, _ in exp}
        if names & set(L['kw']):
            ev.add('keyword-token-leaf')
        if names & set(L['syn']):
            ev.add('synonym-token-leaf')
        if names & set(L.get('kwsyn', ())):
            ev.add('keyword-keyed-by-synonym-name-leaf')
        if any(len(t) > 2 and t[2] != t[1] for t in toks):
            ev.add('token-value-is-part-of-token-text')
        if any(gen.has_skipped_token(s) for s in seps):
            ev.add('skipped-token-in-input')
            if 'skip_tokens' in L['kwargs']:
                ev.add('custom-skip-set')
        if out['other_kind']:
            ev.add('other-kind-token-carries-keyword-text')
            if any(exp[i][0] in L['kw'] for i, _ in out['other_kind']):
                ev.add('same-text-is-keyword-of-two-token-kinds')
        # ---- the session goes on: the returned tree is edited in place, the same text is parsed again
        # (not when the first tree is already wrong: the repeated calls would only report the same defect again)
        if fails or zlib.crc32(text.encode()) % SESSION_EVERY[sessions]:
            continue
        f2, e2, d2, calls = continue_session(parser, text, res, G, start, terminals, exp, SEQ, smart)
        out['fails'] += f2
        ev |= e2
        out['diags'] += d2
        out['reparses'] += calls
    if len(dumps) == 2 and None not in dumps.values() and dumps[False] != dumps[True]:
        # Supporting only: not in the property statement, and false on the unchanged tree for ambiguous
        # grammars (smart mode un-factorizes Y -> a Y__S00 to Y -> a | a a; alternatives of a completed
        # symbol are never re-tried, so another - equally valid - derivation is chosen).
        out['events'].add('different-tree-between-settings')
        if not out['fails']:
            out['diags'].append(('different-tree',
                                 f"supporting clause same_for_both_factorizations: both trees are valid "
                                 f"derivations but differ for {text!r}: smart_factorization=False gives "
                                 f"{dumps[False]!r}, True gives {dumps[True]!r}"))
    sts = set(out['status'].values())
    if len(out['status']) == 2 and 'tree' in sts and 'rejected' in sts:
        out['diags'].append(('one-setting-rejects',
                             f"only one smart_factorization setting returns a tree for {text!r} "
                             f"(supporting: acceptance is C02's business)"))
    return out


def explore_grammar(gs, maxlen, inputs_cache, sessions='all'):
    """gs: concrete grammar spec dict(lex, prods, start, none, terms, fam).  -> result dict"""
    lex, prods, start = gs['lex'], gs['prods'], gs['start']
    G, SEQ = split_grammar(prods)
    res = {'status': 'accepted', 'parses': 0, 'reparses': 0, 'trees': 0, 'rejected': 0, 'budget': 0, 'raised': 0,
           'events': {}, 'fails': {}, 'diags': [], 'ctor': None}
    parsers = {}
    ctor_exc = {}
    for smart in (False, True):
        st, r = guarded(lambda: build_parser(lex, prods, start, gs['none'], smart), CTOR_BUDGET_S)
        if st == 'ok':
            parsers[smart] = r
        else:
            ctor_exc[smart] = 'budget' if st == 'budget' else type(r).__name__
    if not parsers:
        res['status'] = 'ctor-rejected'
        res['ctor'] = ctor_exc[False]
        return res
    if ctor_exc:
        res['diags'].append(('ctor-disagrees',
                             f"constructor accepts [{grammar_str(prods)}] with only one smart_factorization "
                             f"setting ({ctor_exc})"))
    L = gen.LEXICONS[lex]
    terminals = {t for t, _ in L['terms']}
    finfo = {nt: gen.factor_info(alts) for nt, alts in G.items()}
    ev = res['events']

    def hit(e):
        ev[e] = ev.get(e, 0) + 1

    if False in parsers and _suffix_syms(parsers[False]):
        hit('factorization-applied')
        if True in parsers and len(_suffix_syms(parsers[True])) < len(_suffix_syms(parsers[False])):
            hit('undone-factorization')
    key = (lex, tuple(gs['terms']), maxlen)
    if key not in inputs_cache:
        inputs_cache[key] = gen.all_inputs(lex, gs['terms'], maxlen)
    overruns = 0
    kwsyn = L.get('kwsyn', {})
    derived = set()         # token-name strings with a keyword-on-synonym token for which a tree was returned
    derived_plain = set()   # token-name strings for which a tree was returned
    kwother = bool(L.get('kwother'))
    other_readings = set()  # token-name strings obtained from an input for which a tree was returned by reading
    #                         a token of another kind that carries a keyword's text as that keyword
    for toks, seps in inputs_cache[key]:
        with quiet():
            o = eval_input(parsers, G, start, terminals, finfo, lex, toks, seps, SEQ, sessions)
        if (kwsyn or kwother) and 'tree' in o['status'].values():
            w = tuple(t[0] for t in toks)
            derived_plain.add(w)
            if any(n in kwsyn for n in w):
                derived.add(w)
            for i, kt in o['other_kind']:
                other_readings.add(w[:i] + (kt,) + w[i + 1:])
        res['reparses'] += o['reparses']
        for smart, st in o['status'].items():
            res['parses'] += 1
            if st == 'tree':
                res['trees'] += 1
            elif st == 'rejected':
                res['rejected'] += 1
            elif st == 'budget':
                res['budget'] += 1
                overruns += 1
            else:
                res['raised'] += 1
        for e in o['events']:
            hit(e)
        for cat, d in o['diags']:
            if all(c != cat for c, _ in res['diags']):
                res['diags'].append((cat, f"[{grammar_str(prods)}] {d}"))
        for clause, cls, text in o['fails']:
            k = f"C01.{clause}:{cls}"
            case = make_case(gs, toks, seps)
            size = len(repr(case))
            if k not in res['fails'] or size < res['fails'][k][0]:
                res['fails'][k] = (size, f"C01.{clause}",
                                   f"grammar [{grammar_str(prods)}] start {start!r} lexicon {lex!r} "
                                   f"input {o['text']!r}: {text}", case)
        if overruns >= 2:
            res['status'] = 'abandoned-after-budget-overruns'
            break
    # reach: the grammar derives an input with a keyword token AND the same input with that keyword text read
    # as the plain (synonym-named) token - a tokenizer that reports the wrong one of the two still gets a tree
    if any(n in kwsyn and w[:i] + (kwsyn[n],) + w[i + 1:] in derived_plain
           for w in sorted(derived) for i, n in enumerate(w)):
        hit('keyword-and-plain-reading-both-derivable')
    # reach: the grammar derives an input in which a token of ANOTHER kind carries a keyword's text, and also the
    # same input with the keyword at that place - a tokenizer that looks keywords up by the text alone gets a tree
    if other_readings & derived_plain:
        hit('other-kind-token-and-keyword-reading-both-derivable')
    return res


def make_case(gs, toks, seps):
    return {'lex': gs['lex'], 'prods': gs['prods'], 'start': gs['start'], 'none': gs['none'],
            'toks': [list(t) for t in toks], 'seps': list(seps)}


# ---------------------------------------------------------------------------------------------
# the run

def concrete_spec(i, g):
    fam, prods, start, nterm = g[:4]
    lex = g[4] if len(g) > 4 else gen.LEX_ORDER[i % len(gen.LEX_ORDER)]
    nameset = (i // len(gen.LEX_ORDER)) % len(gen.NAMESETS)
    none_style = (i // (len(gen.LEX_ORDER) * len(gen.NAMESETS))) % 2 == 0
    cp, cstart, terms = gen.concretize(prods, start, nterm, lex, nameset)
    return {'fam': fam, 'lex': lex, 'prods': cp, 'start': cstart, 'none': none_style, 'terms': terms}


_W = {}


def _work_init():
    _arm()
    _W['cache'] = {}


def _work(args):
    lo, chunk, maxlen, sessions = args
    out = []
    for j, g in enumerate(chunk):
        gs = concrete_spec(lo + j, g)
        r = explore_grammar(gs, maxlen, _W['cache'], sessions)
        r['case'] = {'lex': gs['lex'], 'prods': gs['prods'], 'start': gs['start'], 'none': gs['none'],
                     'inputs': f"all token strings of length <= {maxlen} over {gs['terms']}"}
        r['fam'] = gs['fam']
        out.append(r)
    return out


def run(b):
    maxlen = 4 if b.tier == 'quick' else 5
    plan = gen.build_plan(b.tier, b.seed)
    chunk = 40
    sessions = 'sampled' if b.tier == 'quick' else 'all'
    jobs = [(lo, plan[lo:lo + chunk], maxlen, sessions) for lo in range(0, len(plan), chunk)]
    install_hooks()
    if _HOOK['orig'] is None:
        b.diag("observation hook on _StackElement.switch_to_next_prod could not be installed "
               "(roll-back reach events cannot be observed)")
    stats = {}
    try:
        nproc = max(1, min(14, (os.cpu_count() or 2) - 1))
        ctx = multiprocessing.get_context('fork')
        with ctx.Pool(nproc, initializer=_work_init) as pool:
            for results in pool.imap(_work, jobs):
                for r in results:
                    _record(b, r, stats)
    finally:
        remove_hooks()
    b.notes['stats'] = stats
    b.require_reach(REQUIRED_REACH)


def _record(b, r, stats):
    fam = r['fam']
    s = stats.setdefault(fam, {'grammars': 0, 'accepted': 0, 'ctor-rejected': 0, 'abandoned': 0,
                               'parses': 0, 'reparses': 0, 'trees': 0, 'rejected': 0, 'budget': 0, 'raised': 0})
    s['grammars'] += 1
    if r['status'] == 'ctor-rejected':
        s['ctor-rejected'] += 1
        b.hit('ctor-rejected:' + str(r['ctor']))
    else:
        s['accepted'] += 1
        if r['status'] != 'accepted':
            s['abandoned'] += 1
            b.hit('grammar-abandoned-after-budget-overruns')
    for k in ('parses', 'reparses', 'trees', 'rejected', 'budget', 'raised'):
        s[k] += r[k]
    nontrivial = r['status'] != 'ctor-rejected' and r['trees'] > 0 and r['rejected'] > 0
    b.case(r['case'], nontrivial=nontrivial)
    b.count(r['parses'] + r['reparses'])
    for e, n in r['events'].items():
        b.hit(e, n)
    dc = b.notes.setdefault('diag_counts', {})
    for cat, d in r['diags']:
        dc[cat] = dc.get(cat, 0) + 1
        if dc[cat] <= 4:
            b.diag(d)
    for key, (size, obligation, text, case) in r['fails'].items():
        b.fail(obligation, key, text, case)


def replay_case(case):
    _arm()
    gs = {'lex': case['lex'], 'prods': case['prods'], 'start': case['start'], 'none': case['none']}
    G, SEQ = split_grammar(gs['prods'])
    parsers = {}
    observed = []
    for smart in (False, True):
        st, r = guarded(lambda: build_parser(gs['lex'], gs['prods'], gs['start'], gs['none'], smart),
                        CTOR_BUDGET_S)
        if st == 'ok':
            parsers[smart] = r
        else:
            observed.append(f"constructor smart_factorization={smart}: {st} {type(r).__name__ if r else ''}")
    if not parsers:
        return True, observed + ['grammar not accepted: nothing demanded']
    terminals = {t for t, _ in gen.LEXICONS[gs['lex']]['terms']}
    finfo = {nt: gen.factor_info(alts) for nt, alts in G.items()}
    with quiet():
        o = eval_input(parsers, G, gs['start'], terminals, finfo, gs['lex'],
                       [tuple(t) for t in case['toks']], case['seps'], SEQ)
    observed.append(f"text {o['text']!r}: " + ', '.join(f"smart={k}: {v}" for k, v in o['status'].items()))
    observed += [f"C01.{c}:{k}: {t}" for c, k, t in o['fails']]
    observed += [f"(diagnostic) {d}" for _, d in o['diags']]
    return (not o['fails']), observed
