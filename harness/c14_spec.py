"""C14 oracle: independent parser of colour descriptions, spec_resolve (DESIGN.md Appendix D.3),
rendering of descriptions from a feature tuple, flat <-> nested dict helpers.

Nothing in this module calls the code under test (ColorsConfig / _ColorConfColorDescr).
`expected_obs` uses ak.color.ColorFmt only as the *reference formatter* the property statement
compares with (ColorFmt is the subject of C09, not of C14).
"""
import functools
import re

COLOR_NAMES = ('BLACK', 'RED', 'GREEN', 'YELLOW', 'BLUE', 'MAGENTA', 'CYAN', 'WHITE')
MOD_NAMES = ('bold', 'faint', 'underline', 'blink', 'crossed')
_RGB_RE = re.compile(r'^\(\s*([0-5])\s*,\s*([0-5])\s*,\s*([0-5])\s*\)$')
_GRAY_RE = re.compile(r'^g(\d|1\d|2[0-3])$')
_INT_RE = re.compile(r'^\d{1,3}$')


class BadDescr(Exception):
    """description outside the documented grammar (pre-condition of the property not met)"""


def _color_token(tok):
    """'' (unset), '-' (terminal default) or a colour literal -> ('unset',) / ('dash',) / ('val', v);
    None when tok is not a colour token"""
    t = tok.strip()
    if t == '':
        return ('unset',)
    if t == '-':
        return ('dash',)
    if t in COLOR_NAMES:
        return ('val', t)
    if _GRAY_RE.match(t):
        return ('val', t)
    m = _RGB_RE.match(t)
    if m:
        return ('val', (int(m.group(1)), int(m.group(2)), int(m.group(3))))
    if _INT_RE.match(t) and 0 <= int(t) <= 255:
        return ('val', int(t))
    return None


def _colors_section(sec):
    parts = sec.split('/')
    if len(parts) > 2:
        return None
    toks = [_color_token(p) for p in parts]
    if any(t is None for t in toks):
        return None
    if len(toks) == 1:
        toks.append(('unset',))
    return toks[0], toks[1]


def _mods_section(sec):
    names = [x.strip() for x in sec.split(',')]
    names = [x for x in names if x]
    if not names:
        return None
    out = {}
    for nm in names:
        if nm in MOD_NAMES:
            out[nm] = True
        elif nm.startswith('no_') and nm[3:] in MOD_NAMES:
            out[nm[3:]] = False
        else:
            return None
    return out


def parse_descr(s):
    """memoised front of _parse_descr (the result's mods dict must not be mutated by callers)"""
    if not isinstance(s, str):
        raise BadDescr(repr(s))
    return _parse_descr(s)


@functools.lru_cache(maxsize=None)
def _parse_descr(s):
    """'[PARENT:][FG[/BG]][:mod,mod]' -> (parent | None, fg, bg, mods); fg/bg are
    ('unset',) | ('dash',) | ('val', v).  Raises BadDescr outside the documented grammar."""
    if not isinstance(s, str):
        raise BadDescr(repr(s))
    secs = s.split(':')
    if len(secs) > 3:
        raise BadDescr(s)
    first = _colors_section(secs[0])
    rest = secs[1:]
    parent = None
    fg = bg = ('unset',)
    mods = {}
    if first is not None:
        fg, bg = first
        if len(rest) > 1:
            raise BadDescr(s)
    else:
        if _mods_section(secs[0]) is not None or '/' in secs[0] or ',' in secs[0] or not secs[0].strip():
            raise BadDescr(s)
        parent = secs[0]
        if rest:
            c = _colors_section(rest[0])
            if c is not None:
                fg, bg = c
                rest = rest[1:]
            elif len(rest) > 1:
                raise BadDescr(s)
    if rest:
        mods = _mods_section(rest[0])
        if mods is None:
            raise BadDescr(s)
    return parent, fg, bg, mods


def render(parent, fg, bg, mods):
    """feature tuple (tokens as written in a config file: '' = unset) -> description string"""
    colors = fg + ('/' + bg if bg != '' else '')
    if parent is None:
        s = colors
    else:
        s = parent + (':' + colors if colors != '' else '')
    if mods:
        s += ':' + mods
    return s


def _dflt(tok):
    return tok[1] if tok[0] == 'val' else None      # '' and '-' -> terminal default


def spec_resolve(M, sid, _seen=()):
    """M: final map id -> description string (first registration wins).
    -> None (unknown id, or chain reaches an unknown id: uncoloured) | (fg, bg, mods)"""
    if sid not in M:
        return None
    if sid in _seen:
        raise BadDescr('cyclic: ' + ' -> '.join(_seen + (sid,)))
    parent, fg, bg, mods = parse_descr(M[sid])
    if parent is None:
        return _dflt(fg), _dflt(bg), dict(mods)
    p = spec_resolve(M, parent, _seen + (sid,))
    if p is None:
        return None
    pf, pb, pm = p
    return (pf if fg[0] == 'unset' else _dflt(fg),
            pb if bg[0] == 'unset' else _dflt(bg),
            {**pm, **mods})


def chain(M, sid):
    """ids on the reference chain of sid inside M (sid first); stops at the first unknown id"""
    out = []
    while sid is not None and sid in M and sid not in out:
        out.append(sid)
        sid = parse_descr(M[sid])[0]
    return out


def has_dash_with_parent(M, ids=None):
    for sid in (M if ids is None else ids):
        if sid in M:
            parent, fg, bg, _ = parse_descr(M[sid])
            if parent is not None and (fg[0] == 'dash' or bg[0] == 'dash'):
                return True
    return False


def valid_acyclic(M):
    try:
        for sid in M:
            spec_resolve(M, sid)
    except BadDescr:
        return False
    return True


def flatten(d, prefix=''):
    out = {}
    for k, v in d.items():
        if isinstance(v, dict):
            out.update(flatten(v, prefix + k + '.'))
        elif isinstance(v, str):
            out[prefix + k] = v
    return out


def group_depths(d, _depth=0, _prefix=''):
    """nested description dict -> {flat id: number of enclosing groups} (0 for a top-level key)"""
    out = {}
    for k, v in d.items():
        if isinstance(v, dict):
            out.update(group_depths(v, _depth + 1, _prefix + k + '.'))
        elif isinstance(v, str):
            out[_prefix + k] = _depth
    return out


def deep_ids(pairs, form):
    """ids of `pairs` that the dict form `form` ('flat' | 'nested') places inside a group that is itself inside
    a group (two or more levels of nesting)"""
    if form != 'nested':
        return set()
    return {sid for sid, dep in group_depths(nest([(p[0], p[1]) for p in pairs])).items() if dep >= 2}


def nest(pairs):
    """[(dotted id, descr)] -> nested dicts ({'T': {'X': ...}}); an id that is also a prefix of
    another id of the same dict cannot be nested and stays a flat dotted key"""
    ids = [p[0] for p in pairs]
    out = {}
    for sid, descr in pairs:
        parts = sid.split('.')
        clash = any(o != sid and (o.startswith(sid + '.') or sid.startswith(o + '.')) for o in ids)
        if clash or len(parts) == 1:
            out[sid] = descr
            continue
        cur = out
        for p in parts[:-1]:
            cur = cur.setdefault(p, {})
            if not isinstance(cur, dict):       # cannot happen for clash-free ids
                raise BadDescr('nest: ' + sid)
        cur[parts[-1]] = descr
    return out
