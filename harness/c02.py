"""C02 bounded driver: conflict-free (LL(1)) grammars are parsed exactly.

Top-level clauses (from the property statement), evaluated on the real LLParser against the
independent spec of harness/grammars.py (textbook nullable/FIRST/FOLLOW/PREDICT, Earley membership):
  ll1_not_ambiguous             G not left-recursive and PREDICT sets pairwise disjoint (LL(1) as written)
                                => LLParser(G).is_ambiguous() is False           (both factorization settings),
                                asked on the fresh parser AND again after every parse() on the same parser
                                object (members and non-members): the verdict is about the grammar and must not
                                change because texts were parsed (key ...:changes-after-parsing)
  exact_language                is_ll1(G) or is_ambiguous() is False  =>  for every token string w, |w| <= L:
                                parse(w) returns  <=>  w in L(G);  every non-member raises ParsingError
  unique_tree                   ... and the tree returned for a member (do_cleanup=False) is a derivation tree
                                of the user's grammar with root = start symbol and yield = the tokens
                                (for an unambiguous grammar that is *the* derivation tree)
  same_for_both_factorizations  smart_factorization True / False: same verdict and same tree for every w,
                                whenever G is LL(1) or both tables are conflict-free
Declaration order: the grammar is given to LLParser as a dict {symbol: alternatives} plus start_symbol_name; the
language, the PREDICT sets and the derivation trees are functions of the productions and the start symbol only, so
the spec does not look at the order of the dict.  Besides the canonical order (start symbol declared first) a
fixed share of the grammars with >= 2 nonterminals is evaluated a second time with the same productions declared
in another order (rotations of the canonical order and of its reverse: the start symbol in every position,
helpers before the start symbol, bottom-up declarations), all clauses unchanged.  A clause that fails only in
the re-ordered declaration gets the key suffix ':only-in-another-declaration-order'.
Form and history of the text argument: parse() takes a str or an iterable of lines.  Every token string up to the
bound is given as a str (a new object per call); then, per grammar in scope, one session with ONE list of lines
and the same parser objects: the list is parsed, edited in place (item assignment / slice assignment / clear+extend,
four line layouts) so that membership changes member -> non-member, non-member -> member or stays, parsed again,
and also handed over again unchanged.  Each parse is judged by the clauses above on the token sequence the list
holds at the moment of the call (an earlier call must not influence a later one).  A clause that holds for all
str texts of the grammar and fails only here gets a key suffix ':only-for-a-list-of-lines',
':only-when-the-parsed-list-of-lines-was-edited-in-place-and-parsed-again' or
':only-when-the-unchanged-list-object-is-parsed-again'.
Description objects shared between parsers (harness/c02_shared.py): the constructor's arguments are descriptions the
caller writes once and re-uses - an AnyTokenExcept('x') constant in the grammars of several parsers, one productions
dict given to parsers with different tokenizers.  Sessions build several parsers in ONE process from the same
objects (tokenizers with more / fewer / the same / other token kinds, both factorization settings; all parsers
constructed before any is used, or each used before the next is constructed) and judge every parser by ITS grammar:
the template with every AnyTokenExcept(ex) replaced by one alternative (t,) per token kind t of that parser's own
tokenizer, t not in ex (the docstring of AnyTokenExcept).  All clauses unchanged; a clause that holds for parsers
constructed from freshly written objects and fails only here gets the key suffix
':only-when-the-description-objects-were-already-used-for-another-parser'.
Supporting (diagnostic only): the parser's nullable / FIRST / FOLLOW of the user's symbols equal the spec; the
constructor leaves the caller's productions dict as it was.
"""
import itertools
import multiprocessing
import os
import zlib
from collections import Counter

from harness import grammars as gr
from harness import c02_shared as sh

TERMINALS = ['a', 'b']
NAMES = {'N0': 'E', 'N1': 'A', 'N2': 'B'}
NAMES_ALT = {'N0': 'A', 'N1': 'B', 'N2': 'C'}          # start symbol sorts first
STEP_BUDGET = 50_000
WALL_BUDGET = 10.0
PEND = '$END$'
ORDER_SUFFIX = ':only-in-another-declaration-order'


def families(tier):
    """(label, n_nt, terminals, max_alts, max_rhs, max_total, names, L)"""
    if tier == 'quick':
        return [('k1', 1, TERMINALS, 2, 4, None, NAMES, 4),
                ('k2', 2, TERMINALS, 2, 4, 6, NAMES, 4),
                ('k3', 3, TERMINALS, 2, 3, 5, NAMES, 4),
                ('nullable-tail', None, ['a', 'b', 'c'], None, None, None, None, 3)]
    return [('k1', 1, TERMINALS, 2, 4, None, NAMES, 6),
            ('k1-3alts', 1, TERMINALS, 3, 3, None, NAMES, 6),
            ('k2', 2, TERMINALS, 2, 4, 7, NAMES, 5),
            ('k2-start-sorts-first', 2, TERMINALS, 2, 4, 6, NAMES_ALT, 5),
            ('k3', 3, TERMINALS, 2, 3, 6, NAMES, 5),
            ('nullable-tail', None, ['a', 'b', 'c'], None, None, None, None, 4)]


def rule_text(tier):
    parts = []
    for label, n, t, ma, mr, mt, names, L in families(tier):
        if label == 'nullable-tail':
            parts.append(f"nullable-tail family (E -> a S | b T; S, T: every sequence of 1..3 symbols over "
                         f"{{A, M, a, b, c}} with >= 1 nonterminal and <= 1 terminal; A -> eps | eps,t; M -> eps | eps,t "
                         f"for t in a, b, c: {len(TAIL_SEQS) ** 2 * 16} grammars), strings <= {L} tokens over 3 terminals")
        else:
            parts.append(f"{n} nonterminal(s) named {[names[f'N{i}'] for i in range(n)]}, <= {ma} alternatives, RHS <= {mr}"
                         + (f", <= {mt} symbol occurrences" if mt else '') + f", terminals {t}, strings <= {L} tokens")
    return ("exhaustive: every grammar with all nonterminals reachable in the families [" + '; '.join(parts) + "], "
            "filtered to non-left-recursive (independent left-corner closure), productions dict in the canonical "
            "declaration order (start symbol first); additionally " + order_share_text(tier) + " the same productions "
            "declared in another order (one of the rotations of the canonical order and of its reverse, chosen by the "
            "same CRC32: start symbol in every position, helper symbols declared before the start symbol, also start "
            "symbols whose alternatives end in a nullable symbol so that an empty alternative must be taken at end of "
            "input), evaluated as a case of its own with the same clauses; each constructed with "
            "smart_factorization True and False; when the grammar is LL(1) by the independent PREDICT sets or a table is "
            "reported conflict-free, every token string up to the bound is parsed (do_cleanup=False) with both parsers (one "
            "parser object per setting for all texts; shortest first, in every second grammar all non-members before "
            "the members), is_ambiguous() is re-asked after every parse, and the verdicts are "
            "compared with the Earley oracle (itself compared with the brute-force language fixpoint on every such "
            "grammar). Then the text is given as a LIST OF LINES kept by the caller (the other documented form of the "
            "argument): per such grammar one session of up to " + str(REPARSE_STEPS[tier]) + " parses with ONE list "
            "object and the same two parser objects - the list is parsed, edited in place to another token string of "
            "the bound (pattern member, unchanged, non-member, unchanged, member, other member, non-member, other "
            "non-member, ...; every second grammar with the roles of member and non-member swapped; strings, line "
            "layouts [" + ', '.join(LAYOUTS) + "] and edit styles [" + ', '.join(EDIT_STYLES) + "] chosen by the "
            "CRC32 of the grammar's text) and parsed again; every parse is judged by the same clauses on the token "
            "sequence the list holds at the moment of the call (oracle: the same Earley / brute-force membership). "
            + sh.rule_text(tier) +
            " non-trivial = LL(1) or conflict-free, and at least one member and one non-member decided")


# ---------------------------------------------------------------------------------------------
# curated family: nullable tails sharing symbols across productions
# ---------------------------------------------------------------------------------------------

def _tail_seqs():
    nts, ts = ['A', 'M'], ['a', 'b', 'c']
    out = []
    for n in (1, 2, 3):
        for seq in itertools.product(nts + ts, repeat=n):
            k = sum(1 for s in seq if s in ts)
            if k <= 1 and k < n:
                out.append(seq)
    return out


TAIL_SEQS = _tail_seqs()


def tail_family(part=None):
    opts = [[()]] + [[(), (t,)] for t in ['a', 'b', 'c']]
    idx = 0
    for s in TAIL_SEQS:
        for t in TAIL_SEQS:
            idx += 1
            if part is not None and idx % part[1] != part[0]:
                continue
            for aa in opts:
                for mm in opts:
                    G = {'E': [('a', 'S'), ('b', 'T')], 'S': [s], 'T': [t], 'A': aa, 'M': mm}
                    if len(gr.reachable(G, 'E')) == 5:
                        yield G


# ---------------------------------------------------------------------------------------------
# declaration order of the productions dict
# ---------------------------------------------------------------------------------------------

def declaration_orders(names):
    """the rotations of the canonical order and of its reverse, without the canonical order itself
    (2 symbols: the swap; 3 symbols: all 5 other permutations; 5 symbols: 9 orders with the start
    symbol - the first canonical name - in every position 0..4)"""
    names = list(names)
    out = []
    for base in (names, names[::-1]):
        for r in range(len(names)):
            o = base[r:] + base[:r]
            if o != names and o not in out:
                out.append(o)
    return out


def order_selected(h, tier):
    return h % 3 == 0 or (tier != 'quick' and h % 6 == 1)


def order_share_text(tier):
    return ("for every grammar with >= 2 nonterminals whose CRC32 (of the grammar's text) is divisible by 3"
            + ('' if tier == 'quick' else ' or is 1 modulo 6'))


def redeclared(G, tier):
    """None, or the productions of G declared in another order (deterministic in G's text)"""
    if len(G) < 2:
        return None
    h = zlib.crc32(gr.grammar_str(G).encode())
    if not order_selected(h, tier):
        return None
    orders = declaration_orders(G)
    o = orders[(h // 6) % len(orders)]
    return {x: G[x] for x in o}


# ---------------------------------------------------------------------------------------------
# the text as a list of lines, kept by the caller between calls: edited in place, parsed again
# ---------------------------------------------------------------------------------------------
# parse() documents two forms of its text argument: a str, or an iterable of lines.  A list of lines is a mutable
# object the caller keeps (an editor buffer): it is parsed, edited IN PLACE and handed to the SAME parser object
# again, or handed again unchanged.  The property speaks about the text, i.e. about the token sequence the object
# holds at the moment of the call: expected verdict = membership of exactly that sequence (Earley + brute force),
# expected tree = a derivation of exactly that sequence.  Nothing here looks at the implementation.

REPARSE_STEPS = {'quick': 8, 'thorough': 24}
REPARSE_OPS = ['M', 'same', 'X', 'same', 'M', 'M', 'X', 'X']      # M / X: edit to another member / non-member
LAYOUTS = ['all tokens on one line', 'one token per line', 'two lines', 'blank lines and indentation']
EDIT_STYLES = ['item assignment line by line (+ append / del for the length)', 'slice assignment buf[:] = lines',
               'clear() and extend()']
SFX_LIST = ':only-for-a-list-of-lines'
SFX_EDITED = ':only-when-the-parsed-list-of-lines-was-edited-in-place-and-parsed-again'
SFX_SAME = ':only-when-the-unchanged-list-object-is-parsed-again'


def lines_of(w, layout):
    """a list of lines whose token sequence is w (tokens are separated by blanks or line ends)"""
    w = list(w)
    if layout == 0:
        return [' '.join(w)]
    if layout == 1:
        return list(w)                                  # the empty sequence: no line at all
    if layout == 2:
        k = (len(w) + 1) // 2
        return [' '.join(w[:k]), ' '.join(w[k:])]
    return ['', '  ' + ' '.join(w[:1]), '', ' '.join(w[1:]) + ' ']


def edit_in_place(buf, target, style):
    """make the list object buf hold the lines `target`; buf stays the same object"""
    if style == 0:
        n = min(len(buf), len(target))
        for i in range(n):
            if buf[i] != target[i]:
                buf[i] = target[i]
        if len(buf) > len(target):
            del buf[len(target):]
        else:
            for x in target[n:]:
                buf.append(x)
    elif style == 1:
        buf[:] = target
    else:
        buf.clear()
        buf.extend(target)


def reparse_plan(gs, decided, steps):
    """deterministic in the grammar's text -> [(op, w, layout, style)], op in 'new', 'edit', 'same'"""
    pools = {'M': [w for w, e in decided if e], 'X': [w for w, e in decided if not e]}
    h = zlib.crc32(('reparse:' + gs).encode())
    swap = {'M': 'X', 'X': 'M', 'same': 'same'}
    plan, cur = [], None
    for i in range(steps):
        op = REPARSE_OPS[i % len(REPARSE_OPS)]
        if h % 2:
            op = swap[op]                               # every second grammar starts with a non-member
        if op == 'same':
            if cur is not None:
                plan.append(('same', cur, None, None))
            continue
        pool = [w for w in pools[op] if w != cur]
        if not pool:
            continue
        cur = pool[(h // 2 + 7 * i) % len(pool)]
        plan.append(('edit' if plan else 'new', cur, (h // 3 + i) % len(LAYOUTS), (h // 5 + i) % len(EDIT_STYLES)))
    return plan


def reparse_session(gs_sorted, decided, steps, parse_all, judge, out):
    """ONE list object and the parser objects of evaluate(): parse, edit the list in place, parse again, ...
    every parse is judged (same clauses as for the str texts) on the token sequence the list holds then"""
    fails, diags, hits, stats = out['fails'], out['diags'], out['hits'], out['stats']
    base_failed = {(c, k) for c, k, _, _ in fails}
    member_of = dict(decided)
    word = lambda e: 'a sentence' if e else 'not a sentence'
    buf, prev, trail, first_bad, prev_failed, sfx = None, None, [], None, False, SFX_LIST
    stats['reparse-sessions'] += 1
    for op, w, layout, style in reparse_plan(gs_sorted, decided, steps):
        exp = member_of[w]
        if op == 'new':
            buf = lines_of(w, layout)
            sfx = SFX_LIST
            trail.append(f"a new list object {buf!r} ({word(exp)}) is parsed")
            hits['reparse:list-of-lines:first-parse'] += 1
        elif op == 'edit':
            before = list(buf)
            target = lines_of(w, layout)
            ident = id(buf)
            edit_in_place(buf, target, style)
            if id(buf) != ident or buf != target or ' '.join(buf).split() != list(w):
                out['errors'].append(f"harness: in-place edit {before} -> {target} (style {style}) went wrong: {buf}")
                return
            sfx = SFX_EDITED
            trail.append(f"the same list object is edited in place ({EDIT_STYLES[style]}) to {buf!r} ({word(exp)}) "
                         f"and parsed again")
            hits[f"reparse:edited-in-place:{'member' if member_of[prev] else 'non-member'}->"
                 + (('other-' if member_of[prev] == exp else '') + ('member' if exp else 'non-member'))] += 1
            hits['reparse:edit:' + EDIT_STYLES[style].split(' (')[0].split(' buf')[0]] += 1
            if len(before) == len(buf) and sum(1 for x, y in zip(before, buf) if x != y) == 1:
                hits['reparse:edit:one-line-replaced-number-of-lines-unchanged'] += 1
            if len(before) != len(buf):
                hits['reparse:edit:number-of-lines-changed'] += 1
            if len(before) == 0 or len(buf) == 0:
                hits['reparse:edit:from-or-to-a-list-without-lines'] += 1
        else:
            # parsed again right after a failed parse of the same content: the same class as that failure
            sfx = sfx if prev_failed else SFX_SAME
            trail.append(f"the same list object, unchanged ({buf!r}, {word(exp)}), is parsed again")
            hits['reparse:unchanged-object:after-' + ('member' if exp else 'non-member')] += 1
        snapshot = list(buf)
        shown = f"parse(<list of lines> {snapshot!r})"
        res = parse_all(buf, shown)
        stats['reparse-parses'] += len(res)
        if buf != snapshot:
            diags.append(f"supporting: parse() changed the caller's list of lines {snapshot!r} to {buf!r} for "
                         f"[{gs_sorted}]")
            buf[:] = snapshot
        sink = []
        judge(w, exp, res, shown, sink)
        prev_failed = bool(sink)
        if sink:
            note = (" [history of this call, one parser object per setting throughout: after the str texts, "
                    + '; then '.join(trail[-3:]) + "]")
            for clause, ksuf, text, w_ in sink:
                if (clause, ksuf) not in base_failed:
                    ksuf += sfx             # the clause holds for every str text of this grammar
                fails.append([clause, ksuf, text + note, w_])
            if first_bad is None:
                first_bad = (snapshot, len(fails) - len(sink), len(fails))
        prev = w
    if first_bad is not None:
        # information for the reader (after the session, so that it cannot influence it): equal lines, NEW object
        snapshot, i0, i1 = first_bad
        res = parse_all(list(snapshot), f"parse(<new list object> {snapshot!r})")
        info = (" [afterwards a NEW list object with equal lines given to the same parser objects: "
                + ', '.join(f"smart_factorization={s}: {v[1] if v[0] == 'tree' else v[0]}" for s, v in sorted(res.items()))
                + "]")
        for f in fails[i0:i1]:
            f[2] += info
    for i, f in enumerate(fails):
        fails[i] = tuple(f)


# ---------------------------------------------------------------------------------------------
# evaluation of all clauses on one grammar
# ---------------------------------------------------------------------------------------------

def _parsing_error_class():
    from ak import llparser
    return llparser.ParsingError


def _user_sets(parser, G):
    """parser's own nullable / FIRST / FOLLOW restricted to the user's nonterminals, '$END$' -> '$'"""
    conv = lambda s: {gr.END if t == PEND else t for t in s}
    sm = parser._summary
    nul = {x for x in sm.nullables if x in G}
    fi = {x: conv(v) for x, v in sm.first_sest.items() if x in G}
    fo = {x: conv(v) for x, v in sm.follow_sets.items() if x in G}
    return nul, fi, fo


def evaluate(G, start, terminals, L, reparse_steps=REPARSE_STEPS['quick'], factory=None):
    """factory: None (a parser is constructed from G itself) or smart_factorization -> LLParser, for parsers whose
    grammar G is described to the constructor in another way (harness/c02_shared.py); all clauses unchanged.
    -> dict(fails=[(clause, keysuffix, text, input or None)], diags=[...], hits=Counter, stats=Counter,
               nontrivial=bool, errors=[...])"""
    out = {'fails': [], 'diags': [], 'hits': Counter(), 'stats': Counter(), 'nontrivial': False, 'errors': []}
    fails, diags, hits, stats = out['fails'], out['diags'], out['hits'], out['stats']
    gs = gr.grammar_str(G)
    ll1 = gr.is_ll1(G, start)
    N, FI, FO = gr.first_follow(G, start)
    parsers, amb = {}, {}
    follow_over = False
    for smart in (True, False):
        make = (lambda: factory(smart)) if factory is not None else (lambda: gr.make_parser(G, start, terminals, smart))
        kind, val, _ = gr.guarded(make, wall_s=WALL_BUDGET)
        if kind != 'ok':
            what = f"{type(val).__name__}" if kind == 'exc' else str(val)
            diags.append(f"constructor(smart_factorization={smart}) fails with {what} for the non-left-recursive "
                         f"well-formed grammar [{gs}]: nothing of C02 can be observed")
            stats['constructor-failed'] += 1
            continue
        p = val
        kind, a, _ = gr.guarded(lambda: p.is_ambiguous(), wall_s=WALL_BUDGET)
        if kind != 'ok' or not isinstance(a, bool):
            fails.append(('ll1_not_ambiguous' if ll1 else 'exact_language', 'is_ambiguous-no-verdict',
                          f"is_ambiguous() gives {a!r} ({kind}) for [{gs}]", None))
            continue
        parsers[smart], amb[smart] = p, a
        # supporting: internal sets
        try:
            nul, fi, fo = _user_sets(p, G)
            if nul != N:
                diags.append(f"supporting: nullables {sorted(nul)} != spec {sorted(N)} for [{gs}]")
            for x in G:
                if fi.get(x) != FI[x]:
                    diags.append(f"supporting: FIRST({x}) = {sorted(fi.get(x, []))} != spec {sorted(FI[x])} for [{gs}]")
                if fo.get(x) != FO[x]:
                    diags.append(f"supporting: FOLLOW({x}) = {sorted(fo.get(x, []))} != spec {sorted(FO[x])} for [{gs}] "
                                 f"(smart_factorization={smart})")
                    if fo.get(x) is not None and fo[x] > FO[x]:
                        follow_over = True
        except Exception as e:      # noqa
            diags.append(f"supporting: internal sets not readable ({type(e).__name__})")
        if ll1 and a:
            try:
                conflicts = sorted((k, [r.production for r in v]) for k, v in p.parse_table.items() if len(v) != 1)[:2]
            except Exception:       # noqa
                conflicts = '?'
            fails.append(('ll1_not_ambiguous', 'follow-over-approximated' if follow_over else 'other',
                          f"[{gs}] (start {start}) is LL(1) as written (PREDICT sets pairwise disjoint, not "
                          f"left-recursive) but is_ambiguous() is True with smart_factorization={smart}; table "
                          f"conflicts {conflicts}", None))
    if not parsers:
        return out
    if ll1:
        hits['ll1'] += 1
    if not (ll1 or any(a is False for a in amb.values())):
        stats['not-ll1-and-reported-ambiguous'] += 1
        return out
    if not ll1:
        hits['conflict-free-but-not-ll1-as-written'] += 1
    if any(len(a) >= 2 and any(a[i] in N and a[i + 1] in N for i in range(len(a) - 1)) for al in G.values() for a in al):
        hits['checked:nullable-followed-by-nullable' + (':ll1' if ll1 else '')] += 1
    # declaration order of the productions dict (the spec above never looks at it)
    pos = list(G).index(start)
    empty_at_end = any(x in N and gr.END in FO[x] for x in G)   # some symbol derives eps right before end of input
    start_tail_nullable = any(a and a[-1] in N for a in G[start])

    # the language part
    PE = _parsing_error_class()
    D = gr.language_upto(G, L)[start]
    members = nonmembers = 0
    checked = [s for s in parsers if ll1 or amb[s] is False]
    decided = []
    for w in gr.all_strings(terminals, L):
        exp = gr.member(G, start, w)
        if exp != (w in D):
            out['errors'].append(f"oracle disagreement on [{gs}] {w}: Earley {exp}, brute force {w in D}")
            return out
        decided.append((w, exp))
    # one parser object per setting serves all texts.  Order of the texts: shortest first, and in every
    # second grammar (deterministically, by the grammar's text) all non-members before the members, so that
    # both 'rejected texts first' and 'accepted texts first' histories occur.
    if sum(map(ord, gs)) % 2:
        decided.sort(key=lambda p: p[1])            # stable: non-members (False) first
        hits['order:non-members-first'] += 1
    else:
        hits['order:shortest-first'] += 1
    cur_amb = dict(amb)
    flipped = set()

    def parse_all(text, shown):
        """hand the object `text` to parse() of every parser object -> {smart: (verdict, shape, tree)}"""
        res = {}
        for smart in parsers:
            kind, val, _ = gr.guarded(lambda: parsers[smart].parse(text, do_cleanup=False),
                                      wall_s=WALL_BUDGET, steps=STEP_BUDGET)
            stats['parses'] += 1
            if kind == 'ok':
                try:
                    shape = gr.tree_shape(val)
                except Exception:       # noqa
                    shape = repr(val)
                res[smart] = ('tree', shape, val)
            elif kind == 'exc':
                res[smart] = ('ParsingError' if isinstance(val, PE) else type(val).__name__, None, None)
            else:
                res[smart] = ('no-return', None, None)
            # is_ambiguous() re-asked on the used parser: the answer must not depend on the texts parsed
            kind2, a2, _ = gr.guarded(lambda: parsers[smart].is_ambiguous(), wall_s=WALL_BUDGET)
            if amb[smart] is False:
                hits['is_ambiguous re-asked after ' + ('an accepted text' if res[smart][0] == 'tree' else
                                                       'a rejected text')] += 1
            if (kind2 != 'ok' or a2 != cur_amb[smart]) and smart not in flipped:
                flipped.add(smart)
                got = a2 if kind2 == 'ok' else f"{kind2}: {a2!r}"
                msg = (f"[{gs}] (start {start}, smart_factorization={smart}, is_ll1={ll1}): is_ambiguous() was "
                       f"{amb[smart]} on the fresh parser and is {got} after {shown} ({res[smart][0]}) on the "
                       f"same parser object; the verdict must not change because texts were parsed")
                if ll1 or amb[smart] is False:
                    fails.append(('ll1_not_ambiguous', 'changes-after-parsing', msg, w_of(text)))
                else:
                    diags.append('supporting: ' + msg)
        return res

    def w_of(text):
        return tuple(text.split()) if isinstance(text, str) else tuple(' '.join(text).split())

    def judge(w, exp, res, shown, sink):
        """the clauses of one parse: w = the token sequence the text holds at the moment of the call"""
        for smart in checked:
            verdict, shape, tree = res[smart]
            ctx = f"[{gs}] (start {start}, smart_factorization={smart}, is_ll1={ll1}, is_ambiguous()={amb[smart]})"
            cls = 'll1-reported-ambiguous' if amb[smart] else 'conflict-free'
            if verdict == 'no-return':
                sink.append(('exact_language', 'parse-does-not-return', f"{ctx}: {shown} did not return", w))
            elif verdict == 'tree' and not exp:
                sink.append(('exact_language', f"accepts-non-member:{cls}",
                             f"{ctx}: {shown} succeeds but the string is not in L(G)", w))
            elif verdict != 'tree' and exp:
                k = f"rejects-member:{cls}" if verdict == 'ParsingError' else f"member-raises-{verdict}"
                sink.append(('exact_language', k, f"{ctx}: {shown} raises {verdict} but the string is in "
                             f"L(G)", w))
            elif verdict != 'tree' and verdict != 'ParsingError':
                sink.append(('exact_language', f"non-member-raises-{verdict}",
                             f"{ctx}: the non-member {shown} raises {verdict}, not ParsingError", w))
            elif verdict == 'tree':
                try:
                    if getattr(tree, 'name', None) != start:
                        raise gr.DerivationError(f"root is {getattr(tree, 'name', None)!r}, not the start symbol")
                    y = gr.valid_derivation(tree, G)
                    if y != [(t, t) for t in w]:
                        raise gr.DerivationError(f"yield {y} is not the token sequence")
                    stats['trees-validated'] += 1
                except gr.DerivationError as e:
                    sink.append(('unique_tree', 'not-a-derivation-of-the-tokens',
                                 f"{ctx}: {shown} returns {shape}: {e}", w))
                except Exception as e:      # noqa  (garbage tree)
                    sink.append(('unique_tree', 'not-a-tree',
                                 f"{ctx}: {shown} returns {shape!r}: {type(e).__name__}", w))
        if len(parsers) == 2 and (ll1 or (amb[True] is False and amb[False] is False)):
            (v1, s1, _), (v2, s2, _) = res[True], res[False]
            if v1 != v2:
                sink.append(('same_for_both_factorizations', 'different-verdict',
                             f"[{gs}] (start {start}): {shown} gives {v1} with smart_factorization=True and "
                             f"{v2} with False", w))
            elif v1 == 'tree' and s1 != s2:
                sink.append(('same_for_both_factorizations', 'different-tree',
                             f"[{gs}] (start {start}): {shown} gives {s1} with smart_factorization=True and "
                             f"{s2} with False", w))
            else:
                stats['factorizations-compared'] += 1

    for w, exp in decided:
        members += exp
        nonmembers += (not exp)
        text = gr.text_of(w)
        shown = f"parse({text!r})"
        judge(w, exp, parse_all(text, shown), shown, fails)
    if reparse_steps and members + nonmembers >= 2:
        # the plan of the session is a function of the productions, not of their declaration order
        reparse_session(gr.grammar_str({x: G[x] for x in sorted(G)}), decided, reparse_steps, parse_all, judge, out)
    stats['language-checked'] += 1
    if members and nonmembers:
        hits[f'decl-order:start-symbol-declared-at-position-{pos}'] += 1
        if pos:
            hits['decl-order:start-symbol-not-declared-first' + (':ll1' if ll1 else '')] += 1
            if pos == len(G) - 1:
                hits['decl-order:start-symbol-declared-last'] += 1
            else:
                hits['decl-order:start-symbol-declared-between-helpers'] += 1
            if empty_at_end:
                hits['decl-order:start-symbol-not-declared-first:empty-alternative-taken-at-end-of-input'
                     + (':ll1' if ll1 else '')] += 1
            if start_tail_nullable:
                hits['decl-order:start-symbol-not-declared-first:start-alternative-ends-in-nullable-symbol'
                     + (':ll1' if ll1 else '')] += 1
    if members:
        hits['member-decided'] += 1
    if nonmembers:
        hits['non-member-decided'] += 1
    out['nontrivial'] = bool(members and nonmembers)
    return out


def make_case(G, start, terminals, L, w=None, reparse_steps=REPARSE_STEPS['quick']):
    c = {'grammar': gr.to_json(G), 'declaration_order': list(G), 'start': start, 'terminals': list(terminals),
         'max_len': L, 'reparse_steps': reparse_steps}
    if w is not None:
        c['input'] = list(w)
    return c


# ---------------------------------------------------------------------------------------------
# worker / run
# ---------------------------------------------------------------------------------------------

def grammars_of(fam, part):
    label, n_nt, terminals, max_alts, max_rhs, max_total, names, L = fam
    if label == 'nullable-tail':
        for G in tail_family(part):
            yield G, 'E'
    else:
        for shape in gr.enumerate_grammars(n_nt, terminals, max_alts, max_rhs, max_total, part=part):
            yield gr.rename(shape, names), names['N0']


def work_shared(task):
    """sessions of harness/c02_shared.py: several parsers of one process built from shared description objects"""
    _, part, tier = task
    cases, fails, hits, diags, stats, errors = [], {}, Counter(), [], Counter(), []
    diag_kinds = set()
    rsteps = REPARSE_STEPS[tier]
    for label, T, start in sh.templates(tier, part):
        for seq_label, token_sets, sharing, schedule in sh.sessions_of(T, tier):
            L = sh.max_len_for(token_sets, tier)
            r = sh.run_session(T, start, token_sets, sharing, schedule, L, rsteps, evaluate, WALL_BUDGET)
            stats.update(r['stats'])
            hits.update(r['hits'])
            errors.extend(r['errors'][:1] if len(errors) < 3 else [])
            for d in r['diags']:
                kind = d.split('=')[0].split('(')[0][:60]
                if kind not in diag_kinds and len(diags) < 6:
                    diag_kinds.add(kind)
                    diags.append(d)
            for k, visible, G, rk in r['builds']:
                cases.append((f"shared description objects [{sh.template_str(T)}] / start {start} / tokenizers "
                              f"{token_sets} / {sharing} / {schedule} / parser pair {k + 1}: {gr.grammar_str(G)} / "
                              f"strings <= {L}", rk['nontrivial']))
            for clause, ksuf, text, k, w in r['fails']:
                key = f"C02.{clause}:{ksuf}"
                case = sh.session_case(T, start, token_sets, sharing, schedule, L, rsteps, k, w)
                size = len(repr(case))
                cur = fails.get(key)
                if cur is None or size < cur[3]:
                    fails[key] = (f"C02.{clause}", text, case, size)
    return cases, fails, hits, diags, stats, errors


def work(task):
    fam, part, tier = task
    if fam == 'shared-description-objects':
        return work_shared(task)
    terminals, L = fam[2], fam[7]
    cases, fails, hits, diags, stats, errors = [], {}, Counter(), [], Counter(), []
    diag_kinds = set()
    rsteps = REPARSE_STEPS[tier]

    def record(G, start, r, canonical_failed=None):
        cases.append((f"{gr.grammar_str(G)} / start {start} / strings <= {L}", r['nontrivial']))
        hits.update(r['hits'])
        stats.update(r['stats'])
        errors.extend(r['errors'][:1] if len(errors) < 3 else [])
        for d in r['diags']:
            kind = d.split('=')[0].split('(')[0][:40]
            if kind not in diag_kinds and len(diags) < 6:
                diag_kinds.add(kind)
                diags.append(d)
        for clause, ksuf, text, w in r['fails']:
            if canonical_failed is not None and (clause, ksuf) not in canonical_failed:
                ksuf += ORDER_SUFFIX
                text += (f" [the clause holds for the same productions declared in the order "
                         f"{', '.join(canonical_failed[None])} (start symbol first)]")
            key = f"C02.{clause}:{ksuf}"
            case = make_case(G, start, terminals, L, w, rsteps)
            size = len(repr(case))
            cur = fails.get(key)
            if cur is None or size < cur[3]:
                fails[key] = (f"C02.{clause}", text, case, size)

    for G, start in grammars_of(fam, part):
        if gr.left_recursive(G):
            stats['filtered:left-recursive'] += 1
            continue
        r = evaluate(G, start, terminals, L, rsteps)
        record(G, start, r)
        G2 = redeclared(G, tier)
        if G2 is not None:
            # same productions, same start symbol, another declaration order of the dict: a case of its own
            stats['evaluated-in-another-declaration-order'] += 1
            canonical_failed = {(c, k): True for c, k, _, _ in r['fails']}
            canonical_failed[None] = list(G)
            record(G2, start, evaluate(G2, start, terminals, L, rsteps), canonical_failed)
    return cases, fails, hits, diags, stats, errors


SHARED_PARTS = 64


def tasks_for(tier):
    out = []
    for fam in families(tier):
        n = 8 if fam[1] == 1 else 96
        for i in range(n):
            out.append((fam, (i, n), tier))
    for i in range(SHARED_PARTS):
        out.append(('shared-description-objects', (i, SHARED_PARTS), tier))
    return out


def run(b):
    tasks = tasks_for(b.tier)
    ctx = multiprocessing.get_context('fork')
    nproc = min(16, os.cpu_count() or 1)
    stats = Counter()
    with ctx.Pool(nproc) as pool:
        for cases, fails, hits, diags, st, errors in pool.imap(work, tasks, chunksize=1):
            for cs, nt in cases:
                b.case(cs, nontrivial=nt)
            for key, (ob, text, case, _) in sorted(fails.items()):
                b.fail(ob, key, text, case)
            for ev, n in hits.items():
                b.hit(ev, n)
            for d in diags:
                b.diag(d)
            for e in errors:
                if len(b.errors) < 5:
                    b.error(e)
            stats.update(st)
    for k, v in sorted(stats.items()):
        b.notes[k] = v
    if stats['language-checked'] == 0 or stats['trees-validated'] == 0:
        b.error("no grammar reached the language comparison / no tree was validated")
    b.require_reach(['ll1', 'checked:nullable-followed-by-nullable:ll1', 'conflict-free-but-not-ll1-as-written',
                     'member-decided', 'non-member-decided', 'is_ambiguous re-asked after a rejected text',
                     'is_ambiguous re-asked after an accepted text', 'order:non-members-first',
                     'order:shortest-first'])
    # declaration order of the productions dict: start symbol in every position (0..2 in the enumerated families,
    # 0..4 in the nullable-tail family), and - not declared first - with an empty alternative that has to be taken
    # at end of input (FOLLOW(start) = {end of input} must be attached to the start symbol, wherever it is declared)
    b.require_reach([f'decl-order:start-symbol-declared-at-position-{i}' for i in range(5)]
                    + ['decl-order:start-symbol-not-declared-first:ll1', 'decl-order:start-symbol-not-declared-first',
                       'decl-order:start-symbol-declared-last', 'decl-order:start-symbol-declared-between-helpers',
                       'decl-order:start-symbol-not-declared-first:empty-alternative-taken-at-end-of-input:ll1',
                       'decl-order:start-symbol-not-declared-first:start-alternative-ends-in-nullable-symbol:ll1'])
    if stats['evaluated-in-another-declaration-order'] == 0:
        b.error("no grammar was evaluated in a non-canonical declaration order")
    # the text as a list of lines kept by the caller: edited in place between two parse() calls of the same parser
    # object so that membership changes in either direction or stays, and handed over again unchanged
    b.require_reach(['reparse:list-of-lines:first-parse',
                     'reparse:edited-in-place:member->non-member', 'reparse:edited-in-place:non-member->member',
                     'reparse:edited-in-place:member->other-member',
                     'reparse:edited-in-place:non-member->other-non-member',
                     'reparse:unchanged-object:after-member', 'reparse:unchanged-object:after-non-member',
                     'reparse:edit:one-line-replaced-number-of-lines-unchanged',
                     'reparse:edit:number-of-lines-changed', 'reparse:edit:from-or-to-a-list-without-lines']
                    + ['reparse:edit:' + x.split(' (')[0].split(' buf')[0] for x in EDIT_STYLES])
    if stats['reparse-parses'] == 0:
        b.error("no list of lines was parsed again")
    # several parsers of one process constructed from the same description objects (AnyTokenExcept instances,
    # productions dict), tokenizers with more / fewer / the same / other token kinds; each judged by ITS grammar
    P = 'shared:language-checked:a parser with '
    b.require_reach(['shared:ll1', 'shared:conflict-free-but-not-ll1-as-written',
                     'shared:language-checked:the first parser of the session',
                     P + 'more token kinds than the one constructed before it',
                     P + 'fewer token kinds than the one constructed before it',
                     P + 'same token kinds as the one constructed before it',
                     P + 'other token kinds as the one constructed before it',
                     'shared:sentence-with-a-token-kind-no-earlier-parser-of-the-session-knew',
                     'shared:sentence-with-a-token-kind-no-earlier-parser-of-the-session-knew:ll1',
                     'shared:a-token-kind-of-an-earlier-parser-is-unknown-to-this-one',
                     'shared:one-AnyTokenExcept-object-in-the-productions-of-two-symbols']
                    + ['shared:sharing:' + x for x in sh.SHARINGS] + ['shared:schedule:' + x for x in sh.SCHEDULES])
    if stats['shared:sessions'] == 0 or stats['shared:trees-validated'] == 0:
        b.error("no session with shared description objects reached the language comparison")


def replay_shared(case):
    T = sh.template_from_json(case['template'])
    order = case.get('declaration_order')
    if order is not None:
        if sorted(order) != sorted(T):
            raise RuntimeError('declaration_order does not list exactly the symbols of the template')
        T = {x: T[x] for x in order}
    token_sets = [list(t) for t in case['token_sets']]
    if case['sharing'] not in sh.SHARINGS + [sh.SHARE_NONE] or case['schedule'] not in sh.SCHEDULES:
        raise RuntimeError('unknown sharing mode / schedule')
    r = sh.run_session(T, case['start'], token_sets, case['sharing'], case['schedule'], int(case.get('max_len', 4)),
                       int(case.get('reparse_steps', REPARSE_STEPS['quick'])), evaluate, WALL_BUDGET)
    if r['errors']:
        raise RuntimeError('; '.join(r['errors'][:3]))
    if r['skipped']:
        return True, [f"outside the quantifier of C02: {r['skipped']}"]
    observed = [f"parser pair {k + 1}, token kinds {v}: grammar [{gr.grammar_str(G)}], is_ll1 = {gr.is_ll1(G, case['start'])}, "
                f"{len(rk['fails'])} failed clause instance(s)" for k, v, G, rk in r['builds']]
    observed += [f"{c}: {t}" for c, _, t, _, _ in r['fails']][:4] + r['diags'][:6]
    return (not r['fails']), observed


def replay_case(case):
    if case.get('kind') == 'shared-description-objects':
        return replay_shared(case)
    G = gr.from_json(case['grammar'])
    order = case.get('declaration_order')
    if order is not None:       # the declaration order is part of the case (JSON objects need not keep it)
        if sorted(order) != sorted(G):
            raise RuntimeError('declaration_order does not list exactly the nonterminals of the grammar')
        G = {x: G[x] for x in order}
    start, terminals, L = case['start'], case['terminals'], int(case.get('max_len', 4))
    rsteps = int(case.get('reparse_steps', REPARSE_STEPS['quick']))
    if not gr.well_formed(G, start, terminals) or gr.left_recursive(G):
        return True, ['grammar is not well-formed or is left-recursive: outside the quantifier of C02']
    r = evaluate(G, start, terminals, L, rsteps)
    if r['errors']:
        raise RuntimeError('; '.join(r['errors']))
    observed = [f"is_ll1 = {gr.is_ll1(G, start)}"] + [f"{c}: {t}" for c, _, t, _ in r['fails']][:12] + r['diags'][:6]
    if r['fails'] and list(G)[0] != start:
        # information only: the same productions with the start symbol declared first
        G0 = {x: G[x] for x in [start] + [x for x in G if x != start]}
        r0 = evaluate(G0, start, terminals, L, rsteps)
        observed.append(f"declared in the order {', '.join(G0)} (start symbol first) the same productions give "
                        + (f"{len(r0['fails'])} failed clause instance(s)" if r0['fails'] else 'no failed clause'))
    return (not r['fails']), observed
