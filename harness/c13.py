"""C13 bounded driver: the reported format string of a table reproduces the table, at every point of
the table's life.

A case = a table description (harness/c12_tables.py) + a history of operations bringing the table to
a life point:  ['str'] | ['ch_text'] | ['ch_text_partial'] | ['set', {'columns': .., 'limits': ..}] |
['remove', [names]].   At the life point  s = str(table.fmt)  and (top-level clauses)

  same_descriptors   s is inside the grammar  name['/'mod]['!']':'min['-'max['('width')']] , ... [';' n':'m | '*']
                     (parsed by an independent inverse parser) and names the configured columns in order
                     with the configured modifier, break-by mark and min/max; its limits section equals the
                     configured limits, and may be missing only if the limits do not affect the rendering;
                     after `table.fmt = s` and in PPTable(records, fmt=s, ...) the same holds for the new
                     format (limits compared whenever they affect the rendering)
  setter_accepts     `table.fmt = s` raises nothing and the rendering equals the rendering of an identically
                     built twin table that was left alone
  ctor_accepts       PPTable(records, fmt=s, same fields / field types / titles / header / footer) raises
                     nothing and renders like the twin
  empty_fmt_noop     `table.fmt = e` for e in "", ";", ";;" raises nothing, keeps columns and limits and the
                     rendering equals the twin's

Renderings are compared as no-colour text.  The configured columns / limits ("the model") are computed
from the description and the history by the harness, never read from the table.
"""
import itertools
import multiprocessing
import random

from ak import ppobj

from harness import c12_tables as T

CLAUSES = ('same_descriptors', 'setter_accepts', 'ctor_accepts', 'empty_fmt_noop')
REACH = ['width-suffix', 'limits-section-present', 'limits-section-absent', 'lines-skipped',
         'hidden-field', 'repeated-field', 'modifier', 'break-by', 'fixed-width', 'ranged-width',
         'life:fresh', 'life:str', 'life:ch_text', 'life:ch_text_partial', 'life:set', 'life:remove',
         'life:printed-then-set', 'life:printed-then-remove',
         'lines>default-limits', 'lines>default-limits:all-shown',
         'lines>default-limits:limits-section-dropped', 'lines>default-limits:never-limited']

# The package has default record limits (30 first, 20 last records: more than 30 + 20 + 1 table lines are
# cut) which apply only where the documentation says so.  The harness uses the numbers for ONE purpose: to
# size record sets so that a default sneaking into the round trip would hide records (reach events
# 'lines>default-limits*'); the oracle never uses them.
DEFAULT_LIMITS = (30, 20)
DEFAULT_LINES = DEFAULT_LIMITS[0] + DEFAULT_LIMITS[1] + 1


class Res:
    def __init__(self):
        self.fails = []
        self.diags = []
        self.hits = set()
        self.nontrivial = False

    def fail(self, clause, ksuf, text):
        self.fails.append((clause, ksuf, text))


def _short(s, n=100):
    s = repr(s)
    return s if len(s) <= n else s[:n] + '...'


# ------------------------------------------------------------------------------------------------
# the model through the history

def run_model(desc, history):
    """-> (columns, limits, rendered_since_last_format_object, events).
    Event 'stale-widths-possible': a break-by column was removed from a printed table that has record
    limits - the set of visible records may change while the negotiated widths are kept."""
    cols, limits = T.initial_model(desc)
    rendered = False
    ev = set()
    printed_ever = False
    for op in history:
        kind = op[0]
        if kind in ('str', 'ch_text', 'ch_text_partial'):
            rendered = True
            printed_ever = True
            ev.add('life:' + kind)
        elif kind == 'set':
            spec = op[1]
            if spec.get('columns') == '*':
                cols = T.model_columns(desc, None)
            elif spec.get('columns') is not None:
                cols = T.model_columns(desc, spec['columns'])
            if spec.get('limits') is not None:
                limits = T.model_limits(spec['limits'])
            rendered = False
            ev.discard('stale-widths-possible')
            ev.add('life:set')
            if printed_ever:
                ev.add('life:printed-then-set')
        elif kind == 'remove':
            if rendered and limits is not None and any(c.brk and c.field in op[1] for c in cols):
                ev.add('stale-widths-possible')
            cols = [c for c in cols if c.field not in op[1]]
            ev.add('life:remove')
            if printed_ever:
                ev.add('life:printed-then-remove')
        else:
            raise ValueError(f"unknown history step {op!r}")
    if not history:
        ev.add('life:fresh')
    return cols, limits, rendered, ev


def set_fmt_string(desc, spec):
    cols = spec.get('columns')
    lim = spec.get('limits')
    if cols == '*':
        s = '*'
        ls = T.limits_fmt(lim)
        return s if ls is None else s + ';' + ls
    return T.fmt_string(desc, cols, lim, with_paths=False)


def at_life_point(desc, history, ftypes, records):
    """build the real table and replay the history on it"""
    t = T.build_table(desc, ftypes, records)
    for op in history:
        kind = op[0]
        if kind == 'str':
            str(t)
        elif kind == 'ch_text':
            for _ in t.ch_text(no_color=True):
                pass
        elif kind == 'ch_text_partial':
            it = iter(t.ch_text(no_color=True))
            next(it)
        elif kind == 'set':
            t.fmt = set_fmt_string(desc, op[1])
        elif kind == 'remove':
            t.remove_columns(list(op[1]))
    return t


# ------------------------------------------------------------------------------------------------
# checking one case

def _cmp_cols(parsed_cols, cols):
    """None if the parsed column descriptions equal the model, else a text"""
    got = [(n, m, b, lo, hi) for n, m, b, lo, hi, _w in parsed_cols]
    want = [c.key() for c in cols]
    if got == want:
        return None
    if len(got) != len(want):
        return f"{len(got)} columns {got}, configured {len(want)}: {want}"
    for k, (g, w) in enumerate(zip(got, want)):
        if g != w:
            return (f"column #{k} is (name, modifier, break-by, min, max) = {g}, configured {w}")
    return "columns differ"


def check_case(case):
    res = Res()
    desc, history = case['table'], case['history']
    cols, limits, rendered, ev = run_model(desc, history)
    res.hits |= ev
    ranged = any(c.min != c.max for c in cols)
    records_raw = desc['records']
    tl = T.table_lines_of(records_raw, cols)
    _body, lim_apply = T.apply_limits(tl, limits)
    if lim_apply:
        res.hits.add('lines-skipped')
    # more table lines (records + break-by lines) than the package's default limits would show, while the
    # configuration of THIS table (limits off, larger limits, or never given) shows them all
    beyond_default = len(tl) > DEFAULT_LINES and not lim_apply
    if len(tl) > DEFAULT_LINES:
        res.hits.add('lines>default-limits')
    if beyond_default:
        res.hits.add('lines>default-limits:all-shown')
        if limits is None:
            res.hits.add('lines>default-limits:never-limited')
    if any(c.mod is not None for c in cols):
        res.hits.add('modifier')
    if any(c.brk for c in cols):
        res.hits.add('break-by')
    if len({c.field for c in cols}) < len(cols):
        res.hits.add('repeated-field')
    if len({c.field for c in cols}) < len(desc['fields']):
        res.hits.add('hidden-field')
    if ranged:
        res.hits.add('ranged-width')
    if any(c.min == c.max for c in cols):
        res.hits.add('fixed-width')
    res.nontrivial = bool(rendered and ranged)
    cls = 'ranged-column-after-print' if (rendered and ranged) else 'other'
    if 'stale-widths-possible' in ev:
        changed = 'stale-widths-after-remove_columns'
    elif beyond_default:
        changed = 'rendering-changed:all-shown-lines>default-limits'
    else:
        changed = 'rendering-changed'

    try:
        with T.guarded():
            ftypes = T.make_field_types(desc)
            records = T.make_records(desc)
            A = at_life_point(desc, history, ftypes, records)
            twin = at_life_point(desc, history, ftypes, records)
            ref = T.render(twin)
    except T.Budget:
        res.diags.append(f"[supporting] building the life point {history} did not come back in 10 s")
        res.hits.add('history-failed')
        return res
    except Exception as e:      # noqa
        res.diags.append(f"[supporting] building the life point {history} raises {type(e).__name__}: "
                         f"{_short(str(e))}")
        res.hits.add('history-failed')
        return res

    # ---- s = str(table.fmt), inside the grammar, names the configured columns
    try:
        with T.guarded():
            s = str(A.fmt)
    except BaseException as e:      # noqa
        res.fail('same_descriptors', 'str-raises', f"str(table.fmt) raises {type(e).__name__}")
        return res
    if '(' in s:
        res.hits.add('width-suffix')
    try:
        pcols, plimits = T.parse_fmt(s)
    except T.FmtSyntaxError as e:
        res.fail('same_descriptors', 'outside-grammar', f"str(table.fmt) = {_short(s)}: {e}")
        pcols = None
    if pcols is not None:
        res.hits.add('limits-section-present' if plimits is not None else 'limits-section-absent')
        if beyond_default and limits is not None and plimits is None:
            # the limits were configured (off, or large enough to show everything) and the reported format
            # does not mention them: whoever reads s back must not fall back to narrower limits
            res.hits.add('lines>default-limits:limits-section-dropped')
        diff = _cmp_cols(pcols, cols)
        if diff:
            res.fail('same_descriptors', 'serialized-columns', f"str(table.fmt) = {_short(s)}: {diff}")
        if plimits is not None and limits is not None and plimits != limits:
            res.fail('same_descriptors', 'serialized-limits',
                     f"str(table.fmt) = {_short(s)} says limits {plimits}, configured {limits}")
        if plimits is None and lim_apply:
            res.fail('same_descriptors', 'serialized-limits',
                     f"str(table.fmt) = {_short(s)} has no limits section although the limits {limits} hide "
                     f"records of this table")
        for (n, m, b, lo, hi, w) in pcols:
            if w is not None and not (lo <= w <= hi):
                res.diags.append(f"[supporting] reported width {w} outside {lo}-{hi} in {_short(s)}")

    def descr_after(what, table, ksuf, compare_limits_always):
        try:
            with T.guarded():
                s2 = str(table.fmt)
            pc, pl = T.parse_fmt(s2)
        except T.FmtSyntaxError as e:
            res.fail('same_descriptors', 'outside-grammar', f"{what}: str(table.fmt) = {_short(s2)}: {e}")
            return
        except BaseException as e:      # noqa
            res.fail('same_descriptors', 'str-raises', f"{what}: str(table.fmt) raises {type(e).__name__}")
            return
        diff = _cmp_cols(pc, cols)
        if diff:
            res.fail('same_descriptors', ksuf + '-columns', f"{what} (s = {_short(s)}): now {_short(s2)}: {diff}")
        if limits is not None and (lim_apply or compare_limits_always):
            if pl is not None and pl != limits:
                res.fail('same_descriptors', ksuf + '-limits',
                         f"{what} (s = {_short(s)}): limits now {pl}, configured {limits}")

    # ---- setter
    ok = True
    try:
        with T.guarded():
            A.fmt = s
    except T.Budget:
        ok = False
        res.fail('setter_accepts', 'budget', f"table.fmt = {_short(s)} did not come back in 10 s")
    except Exception as e:      # noqa
        ok = False
        res.fail('setter_accepts', cls,
                 f"after {history or 'construction'}: table.fmt = str(table.fmt) = {_short(s)} raises "
                 f"{type(e).__name__}: {_short(str(e))}")
    if ok:
        try:
            with T.guarded():
                got = T.render(A)
        except BaseException as e:      # noqa
            got = None
            res.fail('setter_accepts', 'render-raises',
                     f"rendering after table.fmt = {_short(s)} raises {type(e).__name__}")
        if got is not None and got != ref:
            res.fail('setter_accepts', changed,
                     f"after {history or 'construction'}: table.fmt = str(table.fmt) = {_short(s)} changes the "
                     f"rendering:\n{ref}\n--- became ---\n{got}")
        descr_after("after table.fmt = s", A, 'after-setter', False)

    # ---- constructor
    ok = True
    C = None
    try:
        with T.guarded():
            C = ppobj.PPTable(records, fmt=s, **T.ctor_kwargs(desc, ftypes))
    except T.Budget:
        ok = False
        res.fail('ctor_accepts', 'budget', f"PPTable(fmt={_short(s)}) did not come back in 10 s")
    except Exception as e:      # noqa
        ok = False
        res.fail('ctor_accepts', cls,
                 f"after {history or 'construction'}: PPTable(records, fmt=str(table.fmt) = {_short(s)}, ...) "
                 f"raises {type(e).__name__}: {_short(str(e))}")
    if ok:
        got = None
        try:
            with T.guarded():
                got = T.render(C)
        except BaseException as e:      # noqa
            res.fail('ctor_accepts', 'render-raises',
                     f"rendering PPTable(records, fmt={_short(s)}) raises {type(e).__name__}: {_short(str(e))}")
        if got is not None and got != ref:
            res.fail('ctor_accepts', changed,
                     f"after {history or 'construction'}: PPTable(records, fmt=str(table.fmt) = {_short(s)}) renders "
                     f"differently:\n{ref}\n--- new table ---\n{got}")
        descr_after("PPTable(records, fmt=s)", C, 'ctor', False)

    # ---- empty formats change nothing
    for e_fmt in ("", ";", ";;"):
        try:
            with T.guarded():
                B = at_life_point(desc, history, ftypes, records)
        except BaseException as e:      # noqa
            res.diags.append(f"[supporting] rebuilding the life point raises {type(e).__name__}")
            break
        try:
            with T.guarded():
                B.fmt = e_fmt
                got = T.render(B)
        except BaseException as e:      # noqa
            res.fail('empty_fmt_noop', 'raises',
                     f"after {history or 'construction'}: table.fmt = {e_fmt!r} (or the rendering after it) raises "
                     f"{type(e).__name__}: {_short(str(e))}")
            continue
        if got != ref:
            res.fail('empty_fmt_noop', changed,
                     f"after {history or 'construction'}: table.fmt = {e_fmt!r} changes the rendering:\n{ref}\n"
                     f"--- became ---\n{got}")
        try:
            with T.guarded():
                B2 = at_life_point(desc, history, ftypes, records)
                B2.fmt = e_fmt
                s3 = str(B2.fmt)
            pc, pl = T.parse_fmt(s3)
            diff = _cmp_cols(pc, cols)
            if diff:
                res.fail('empty_fmt_noop', 'columns-changed',
                         f"after table.fmt = {e_fmt!r} the format is {_short(s3)}: {diff}")
            if pl is not None and limits is not None and pl != limits:
                res.fail('empty_fmt_noop', 'limits-changed',
                         f"after table.fmt = {e_fmt!r} the format is {_short(s3)}: limits {pl}, configured {limits}")
        except T.FmtSyntaxError as e:
            res.fail('same_descriptors', 'outside-grammar', f"after table.fmt = {e_fmt!r}: {e}")
        except BaseException as e:      # noqa
            res.fail('empty_fmt_noop', 'raises', f"table.fmt = {e_fmt!r}; str(table.fmt) raises {type(e).__name__}")
    return res


# ------------------------------------------------------------------------------------------------
# input spaces

ENUM = {'enum': [[10, 'Ok'], [999, ['Error status', 'name_warn']]]}
FIELDS = [{'name': 'id'}, {'name': 'name'}, {'name': 'st', 'type': ENUM}]
RECORDS_6 = [[1, 'Linus', 10], [2, 'Arnold', 10], [3, 'Jerry with a long name', 999],
             [12345, 'El|zer', 20], [5, None, None], [6, 'x', 10]]
RECORDS_3 = [[1, 'Linus', 10], [22, 'Arnold B.', 999], [3, 'J', 999]]
WSPEC = [None, [0], [1], [5], [0, 3], [2, 8], [1, 999]]
LIMS = [None, [0, 0], [1, 0], [0, 1], [1, 1], [2, 2], [30, 20], '*']
NCOL = {'field': 'name', 'w': [4]}


def descriptors():
    """every single column description of the grid: plain / enum field x width spec x modifier x break-by"""
    out = []
    for w in WSPEC:
        for brk in (False, True):
            out.append({'field': 'id', 'w': w, 'brk': brk})
            for mod in (None, 'val', 'name', 'full'):
                out.append({'field': 'st', 'mod': mod, 'w': w, 'brk': brk})
    return out


def histories(cols, limits):
    """the life points for a table whose columns are `cols`: (initial columns, initial limits, history)"""
    set_cols = ['set', {'columns': cols}]
    d_field = cols[0]['field']
    yield cols, limits, []
    yield cols, limits, [['str']]
    yield cols, limits, [['ch_text']]
    yield cols, limits, [['ch_text_partial']]
    yield None, limits, [set_cols]
    yield None, limits, [['str'], set_cols]
    yield None, limits, [set_cols, ['str']]
    yield cols, limits, [['remove', ['name']]]
    yield cols, limits, [['str'], ['remove', ['name', 'no such column']]]
    yield cols, limits, [['remove', [d_field]], ['ch_text']]
    if limits is not None:
        yield cols, None, [['str'], ['set', {'columns': None, 'limits': limits}]]
        yield cols, None, [['str'], ['set', {'columns': None, 'limits': limits}], ['str']]


def family_single(full):
    """1: every descriptor (next to a fixed 'name:4' column) x limits x way of giving the limits x two record
    sets x every life point"""
    for d in descriptors():
        cols = [d, NCOL]
        for lim in LIMS:
            for via in ('fmt', 'arg'):
                if lim is None and via == 'arg':
                    continue
                for recs in (RECORDS_6, RECORDS_3):
                    if not full:       # quick tier: the argument form for two limits, 3 limits for the small set
                        if via == 'arg' and lim not in ([1, 1], '*'):
                            continue
                        if recs is RECORDS_3 and (via == 'arg' or lim not in (None, [1, 1], [2, 2])):
                            continue
                    for icols, ilim, hist in histories(cols, lim):
                        desc = {'mode': 'fields', 'fields': FIELDS, 'records': recs, 'columns': icols,
                                'limits': ilim, 'limits_via': via}
                        yield {'family': 'single', 'table': desc, 'history': hist}


def family_pairs():
    """2: every ordered pair of descriptors (repeated fields included) x 3 limits x 3 printed life points"""
    ds = descriptors()
    for d1, d2 in itertools.product(ds, ds):
        cols = [d1, d2]
        for lim in (None, [1, 1], [2, 2]):
            for hist in ([['str']], [['str'], ['remove', ['name']]],
                         [['ch_text'], ['set', {'columns': None, 'limits': [1, 0]}], ['str']]):
                desc = {'mode': 'fields', 'fields': FIELDS, 'records': RECORDS_6, 'columns': cols,
                        'limits': lim, 'limits_via': 'fmt'}
                yield {'family': 'pairs', 'table': desc, 'history': hist}


def family_stale():
    """1b: a break-by column removed from a printed table with record limits (the set of visible records
    changes while negotiated widths exist): every width spec pair x limits x {serialise now, print again}"""
    fields = [{'name': 'g'}, {'name': 'v'}]
    recs = [[1, 'a'], [2, 'b'], [3, 'cccccc'], [4, 'd']]
    for w1 in WSPEC:
        for w2 in WSPEC:
            for lim in LIMS:
                for hist in ([['str'], ['remove', ['g']]], [['str'], ['remove', ['g']], ['str']]):
                    desc = {'mode': 'fields', 'fields': fields, 'records': recs,
                            'columns': [{'field': 'g', 'brk': True, 'w': w1}, {'field': 'v', 'w': w2}],
                            'limits': lim, 'limits_via': 'fmt'}
                    yield {'family': 'stale', 'table': desc, 'history': hist}


def many_records(n):
    """n records [id, name, st]: ids of 1-3 digits, one long name in the middle (hidden under small limits),
    st = 999 for every 9th record (a break-by column on st adds two service lines around each of them)"""
    out = []
    for i in range(1, n + 1):
        name = 'a rather long name in the middle' if i == n // 2 else 'user %03d' % i
        out.append([i, name, 999 if i % 9 == 0 else 10])
    return out


MANY_COLS = [
    [{'field': 'id', 'w': None}, NCOL],                                              # ranged (default bounds)
    [{'field': 'id', 'w': [5]}, NCOL],                                               # fixed widths only
    [{'field': 'st', 'mod': 'name', 'w': [2, 8], 'brk': True}, {'field': 'name', 'w': [3, 20]}],
    [{'field': 'id', 'w': [0, 3], 'brk': True}, NCOL],                               # a break after every record
]
# limits around the default ones: off, equal, just above, larger than the table, small, by the last lines only
LIMS_MANY = [None, '*', [30, 20], [30, 21], [40, 30], [100, 100], [5, 5], [0, 0], [0, 60]]
NREC_MANY = [44, 52, 60]             # 44 records + break-by lines on st = 52 table lines
ARG_LIMS_MANY_QUICK = ['*', [40, 30], [5, 5]]      # quick tier: the limits given by argument
NREC_MANY_THOROUGH = [44, 51, 52, 53, 60, 71, 130]


def family_many(full):
    """1c: tables with more table lines than the default record limits would show: 4 column sets x record
    counts around 30+20+1 x limits (never given / off / equal to / above the default / small; by fmt and by
    argument - quick tier: 3 of the limits by argument) x every life point"""
    for cols in MANY_COLS:
        for n in (NREC_MANY_THOROUGH if full else NREC_MANY):
            recs = many_records(n)
            for lim in LIMS_MANY:
                for via in ('fmt', 'arg'):
                    if lim is None and via == 'arg':
                        continue
                    if not full and via == 'arg' and lim not in ARG_LIMS_MANY_QUICK:
                        continue
                    for icols, ilim, hist in histories(cols, lim):
                        desc = {'mode': 'fields', 'fields': FIELDS, 'records': recs, 'columns': icols,
                                'limits': ilim, 'limits_via': via}
                        yield {'family': 'many', 'table': desc, 'history': hist}


NAMES_ANY = ['id', 'name', 'st', 'v', 'f0', 'grp', 'level', 'x', 'T_2', 'my col', 'Ünï', 'a.b', 'q?', '2nd']
NAMES_IDENT = ['id', 'name', 'st', 'v', 'f0', 'grp', 'level', 'x', 'T_2']
VALUES = [7, -3, 42, 12345, None, True, False, 1.5, 'a', 'abc', 'hello', '', 'x|y', '+-+', 'long text value here',
          'L' * 25, 'ä']
ENUMS = [ENUM, {'enum': [['A', 'Active'], ['del', ['Deleted', 'name_warn']]]}]


def rand_columns(rnd, fields, max_cols, allow_hidden=True):
    names = [f['name'] for f in fields]
    columns = []
    for _ in range(rnd.randint(1, max_cols)):
        j = rnd.randrange(len(names))
        ty = fields[j].get('type')
        col = {'field': names[j]}
        if ty and 'enum' in ty:
            col['mod'] = rnd.choice([None, 'val', 'name', 'full'])
        if rnd.random() < 0.3:
            col['brk'] = True
        col['w'] = rnd.choice(WSPEC + [[3, 3], [0, 0], [10, 20]])
        columns.append(col)
    if allow_hidden and rnd.random() < 0.2:
        j = rnd.randrange(len(names))
        columns.insert(rnd.randint(0, len(columns)), {'field': names[j], 'w': 'hidden'})
    return columns


def random_case(rnd, thorough, many=False):
    """many: 45-140 records (more than the default record limits show) and limits around the default ones"""
    nrec = rnd.randint(45, 140) if many else rnd.randint(0, 8)
    more_lims = [[30, 21], [40, 30], [100, 100], '*', '*'] if many else []
    mode = 'fields' if nrec == 0 else rnd.choices(['fields', 'namedtuple', 'attr'], [70, 15, 15])[0]
    pool = NAMES_ANY if mode == 'fields' else NAMES_IDENT
    nf = rnd.randint(1, 4)
    names = rnd.sample(pool, nf)
    fields = []
    for nm in names:
        r = rnd.random()
        f = {'name': nm}
        if r < 0.3:
            f['type'] = rnd.choice(ENUMS)
        elif r < 0.4:
            lo = rnd.choice([0, 1, 2, 4])
            f['type'] = {'bounds': [lo, lo + rnd.choice([0, 1, 3, 10])]}
        if rnd.random() < 0.1:
            f['title'] = rnd.choice(['two\nlines', 'A long title of the column', ['top', 555]])
        fields.append(f)
    palettes = []
    for f in fields:
        ty = f.get('type')
        if ty and 'enum' in ty:
            keys = [k for k, _ in ty['enum']]
            base = keys + ([20, None] if isinstance(keys[0], int) else ['zz', None])
        else:
            base = VALUES
        palettes.append(rnd.sample(base, min(len(base), rnd.randint(1, 3))) if rnd.random() < 0.6 else base)
    records = []
    for _ in range(nrec):
        if records and rnd.random() < 0.3:
            rec = list(records[-1])
            j = rnd.randrange(nf)
            rec[j] = rnd.choice(palettes[j])
        else:
            rec = [rnd.choice(p) for p in palettes]
        records.append(rec)
    maxc = 5 if thorough else 4
    if mode == 'attr' or rnd.random() < 0.8:
        columns = rand_columns(rnd, fields, maxc)
    else:
        columns = None
    desc = {'mode': mode, 'fields': fields, 'records': records, 'columns': columns}
    if rnd.random() < 0.6:
        desc['limits'] = rnd.choice(LIMS[1:] + [[3, 1], [0, 2]] + more_lims)
        desc['limits_via'] = rnd.choice(['fmt', 'arg'])
    else:
        desc['limits'] = None
    if rnd.random() < 0.15:
        desc['header'] = rnd.choice(['Hdr', 'A header that is much longer than the table is wide, certainly'])
    if rnd.random() < 0.15:
        desc['footer'] = rnd.choice(['', 'end', 'A footer that is much longer than the table is wide, certainly'])
    if rnd.random() < 0.3:
        desc['spaces'] = True
    # history
    history = []
    cur_cols = T.model_columns(desc, columns)
    # in 'attr' mode only the fields named by the first fmt exist
    known = [f for f in fields if mode != 'attr' or any(c['field'] == f['name'] for c in (columns or []))]
    for _ in range(rnd.choice([0, 1, 1, 2, 2, 3, 4])):
        r = rnd.random()
        if r < 0.45:
            history.append([rnd.choice(['str', 'str', 'ch_text', 'ch_text_partial'])])
        elif r < 0.8:
            spec = {}
            r2 = rnd.random()
            if r2 < 0.6:
                spec['columns'] = rand_columns(rnd, known, maxc)
                cur_cols = T.model_columns(desc, spec['columns'])
            elif r2 < 0.7 and mode != 'attr':
                spec['columns'] = '*'
                cur_cols = T.model_columns(desc, None)
            else:
                spec['columns'] = None
            if rnd.random() < 0.5:
                spec['limits'] = rnd.choice(LIMS[1:] + more_lims)
            history.append(['set', spec])
        else:
            vis = sorted({c.field for c in cur_cols})
            if len(vis) >= 2:
                k = rnd.randint(1, len(vis) - 1)
                gone = rnd.sample(vis, k)
                if rnd.random() < 0.3:
                    gone.append('no such column')
                history.append(['remove', gone])
                cur_cols = [c for c in cur_cols if c.field not in gone]
    return {'family': 'random', 'table': desc, 'history': history}


def _work(args):
    kind, payload = args
    if kind == 'list':
        cases = payload
    else:
        seed, chunk, n, thorough, many = payload
        rnd = random.Random(f"C13:{seed}:many:{chunk}" if many else f"C13:{seed}:{chunk}")
        cases = [random_case(rnd, thorough, many) for _ in range(n)]
    out = []
    for c in cases:
        r = check_case(c)
        out.append((c, r.nontrivial, sorted(r.hits), r.fails, r.diags))
    return out


def chunks(it, n):
    buf = []
    for x in it:
        buf.append(x)
        if len(buf) == n:
            yield buf
            buf = []
    if buf:
        yield buf


def sizes(tier):
    if tier == 'quick':
        return {'pairs': False, 'random': 3000, 'random_many': 400}
    return {'pairs': True, 'random': 40000, 'random_many': 4000}


def run(b):
    sz = sizes(b.tier)
    thorough = b.tier != 'quick'
    jobs = [('list', ch) for ch in chunks(family_single(thorough), 200)]
    jobs += [('list', ch) for ch in chunks(family_stale(), 200)]
    jobs += [('list', ch) for ch in chunks(family_many(thorough), 50)]
    if sz['pairs']:
        jobs += [('list', ch) for ch in chunks(family_pairs(), 200)]
    per = 200
    for k in range(sz['random'] // per):
        jobs.append(('seeded', (b.seed, k, per, thorough, False)))
    per_many = 50
    for k in range(sz['random_many'] // per_many):
        jobs.append(('seeded', (b.seed, k, per_many, thorough, True)))
    ctx = multiprocessing.get_context('fork')
    with ctx.Pool(min(16, multiprocessing.cpu_count() or 1)) as pool:
        for out in pool.imap(_work, jobs, chunksize=1):
            for case, nontrivial, hits, fails, diags in out:
                b.case(case, nontrivial=nontrivial)
                for h in hits:
                    b.hit(h)
                for clause, ksuf, text in fails:
                    b.fail(f"C13.{clause}", f"C13.{clause}:{ksuf}", text, case)
                for dtxt in diags:
                    b.diag(dtxt)
    if b.reach['history-failed']:
        b.error(f"{b.reach['history-failed']} tables could not be brought to their life point (see the supporting "
                f"diagnostics); the clauses were not evaluated on them")
    b.require_reach(REACH)


def replay_case(case):
    r = check_case(case)
    return (not r.fails), [f"{c}:{k}: {t}" for c, k, t in r.fails] + r.diags
