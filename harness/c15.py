"""C15 bounded complement: SqlMethod filters (ak/mtd_sql.py) executed for real on sqlite3.

The text/parameter construction is decided by the proof tier; what is *assumed* there - that the DB
engine, given the rendered statement and the bound values, returns exactly the rows for which the
intended condition holds under SQL three-valued logic - is validated here on an in-memory sqlite3
table, end to end through SqlMethod(...).list / .all.

Top-level clauses:
  rows_match_intent   rows returned == rows of the table for which my own three-valued evaluator of
                      the INTENDED condition (DESIGN appendix D.4 `intent`) gives TRUE, in the
                      requested order (as a multiset when no order is requested)
  values_bound        (spy on cursor.execute through a wrapping connection) one statement, number of
                      '?' placeholders == number of parameters, parameters == the operand values of
                      the intended tree left to right (members of a set in any order), and no
                      distinctive operand text occurs in the SQL string

A case: {'filters': [...], 'kwargs': {...}, 'order': ..., 'default_order': ..., 'api': 'list'|'all',
         'scalars': bool}; a filter is null (ignored argument), ['c', field, op, value] (3-tuple),
['c2', field, value] (2-tuple), ['or', [filters], {kwargs}].  Values: JSON scalars, or
{'list': [...]}, {'tuple': [...]}, {'set': [...]}.
"""
import random
import sqlite3

from ak import mtd_sql

# id, n (INTEGER), s (TEXT)
ROWS = [
    (1, 1, ''),
    (2, 2, "o'q"),
    (3, None, '%'),
    (4, 2, None),
    (5, 0, 'abc'),
    (6, 7731, "x'; DROP TABLE t; --"),
]
COLS = ['id', 'n', 's']
SELECT = "SELECT id, n, s FROM t"

NUM_VALUES = [None, 0, 1, 2, 3, 7731, -5]
STR_VALUES = [None, '', "o'q", '%', 'abc', 'ABC', "x'; DROP TABLE t; --", 'zz9zz']
LIKE_PATTERNS = ['%', '', 'a%', '%c', "o'q", "%'%", '_', 'A_C', '\\%', 'x%--', '___', '%%', 'zz9zz%']
NUM_LIKE = ['%', '2', '7%', '_', '%1']
CMP_OPS = ['=', '!=', '>', '<', '>=', '<=']
ORDERS = [None, 'id', 'id DESC', 'n, id', 'n DESC, id DESC', 's, id', 's DESC, id', 'n, s DESC, id']


# ------------------------------------------------------------------ values
def dval(v):
    if isinstance(v, dict):
        if 'list' in v:
            return [dval(x) for x in v['list']]
        if 'tuple' in v:
            return tuple(dval(x) for x in v['tuple'])
        if 'set' in v:
            return set(dval(x) for x in v['set'])
        raise ValueError(v)
    return v


def members(v):
    k = next(iter(v))
    return list(v[k])


# ------------------------------------------------------------------ intent (the oracle)
def intent_leaf(field, op, v):
    """v is the JSON form; returns the intended condition tree"""
    op = op.upper()
    coll = isinstance(v, dict)
    if op in ('=', '!='):
        if v is None:
            return ('isnull', field, op == '!=')
        if coll and ('list' in v or 'tuple' in v):
            return intent_leaf(field, 'IN' if op == '=' else 'NOT IN', v)
        if coll:
            raise AssertionError("harness: comparison with a set is outside the domain")
        return ('cmp', field, op, v)
    if op in ('IN', 'NOT IN'):
        vs = members(v)
        if not vs:
            return ('const', op == 'NOT IN')
        return ('in', field, op == 'NOT IN', vs, 'set' in v)
    if op in ('IS NULL', 'IS NOT NULL'):
        return ('isnull', field, op == 'IS NOT NULL')
    if op in ('LIKE', 'NOT LIKE'):
        return ('like', field, op == 'NOT LIKE', v)
    if op in ('>', '<', '>=', '<='):
        return ('cmp', field, op, v)
    raise AssertionError(f"harness: operator {op}")


def intent(f):
    if f[0] == 'c':
        return intent_leaf(f[1], f[2], f[3])
    if f[0] == 'c2':
        return intent_leaf(f[1], '=', f[2])
    if f[0] == 'or':
        subs = [intent(x) for x in f[1]]
        subs += [intent_leaf(k, '=', v) for k, v in sorted(f[2].items())]
        return ('or', subs)
    raise AssertionError(f"harness: filter {f}")


def whole_intent(case):
    conj = [intent(f) for f in case['filters'] if f is not None]
    conj += [intent_leaf(k, '=', v) for k, v in sorted(case['kwargs'].items())]
    return conj


def t_not(x):
    return None if x is None else (not x)


def t_or(xs):
    if any(x is True for x in xs):
        return True
    if any(x is None for x in xs):
        return None
    return False


def sql_eq(a, b_):
    if a is None or b_ is None:
        return None
    return a == b_


def sql_like(value, pattern):
    """sqlite LIKE: % any sequence, _ one character, ASCII case-insensitive, no escape character"""
    if value is None or pattern is None:
        return None
    text = (str(value)).lower()
    pat = pattern.lower()
    memo = {}

    def m(i, j):
        if (i, j) in memo:
            return memo[i, j]
        if j == len(pat):
            r = i == len(text)
        elif pat[j] == '%':
            r = any(m(k, j + 1) for k in range(i, len(text) + 1))
        elif i < len(text) and (pat[j] == '_' or pat[j] == text[i]):
            r = m(i + 1, j + 1)
        else:
            r = False
        memo[i, j] = r
        return r
    return m(0, 0)


def holds3(c, row):
    """three-valued truth of the intended condition on a row (dict)"""
    k = c[0]
    if k == 'const':
        return c[1]
    if k == 'isnull':
        r = row[c[1]] is None
        return (not r) if c[2] else r
    if k == 'cmp':
        a, op, v = row[c[1]], c[2], c[3]
        if a is None or v is None:
            return None
        if isinstance(a, str) != isinstance(v, str):
            raise AssertionError("harness: cross-type comparison generated")
        return {'=': a == v, '!=': a != v, '>': a > v, '<': a < v, '>=': a >= v, '<=': a <= v}[op]
    if k == 'in':
        r = t_or([sql_eq(row[c[1]], v) for v in c[3]])
        return t_not(r) if c[2] else r
    if k == 'like':
        r = sql_like(row[c[1]], c[3])
        return t_not(r) if c[2] else r
    if k == 'or':
        return t_or([holds3(x, row) for x in c[1]]) if c[1] else False
    raise AssertionError(c)


def params_of(c):
    """operand values left to right; a set contributes an unordered group"""
    k = c[0]
    if k in ('const', 'isnull'):
        return []
    if k in ('cmp', 'like'):
        return [('v', c[3])]
    if k == 'in':
        return [('set', sorted(c[3], key=repr))] if c[4] else [('v', x) for x in c[3]]
    if k == 'or':
        return [p for x in c[1] for p in params_of(x)]
    raise AssertionError(c)


def order_key(order):
    """'n DESC, id' -> function sorting row dicts the way sqlite does (NULL smallest, binary text order)"""
    keys = []
    for part in order.split(','):
        w = part.split()
        keys.append((w[0], len(w) > 1 and w[1].upper() == 'DESC'))

    def sort(rows):
        rows = list(rows)
        for col, desc in reversed(keys):
            rows.sort(key=lambda r: (0,) if r[col] is None else (1, r[col]), reverse=desc)
        return rows
    return sort


def expected_rows(case):
    conj = whole_intent(case)
    rows = [dict(zip(COLS, r)) for r in ROWS]
    sel = [r for r in rows if all(holds3(c, r) is True for c in conj)]
    order = case['order'] if case['order'] is not None else case['default_order']
    if order is not None:
        sel = order_key(order)(sel)
    return [tuple(r[c] for c in COLS) for r in sel], order is not None


# ------------------------------------------------------------------ real execution
class SpyCursor:
    def __init__(self, cur, log):
        self._cur, self._log = cur, log

    def execute(self, sql, params=()):
        self._log.append((sql, list(params) if not isinstance(params, dict) else params))
        return self._cur.execute(sql, params)

    def __iter__(self):
        return iter(self._cur)

    def __getattr__(self, name):
        return getattr(self._cur, name)


class SpyConn:
    """wrapping connection: records what reaches cursor.execute"""
    def __init__(self, conn):
        self._conn, self.log = conn, []

    def cursor(self):
        return SpyCursor(self._conn.cursor(), self.log)

    def __getattr__(self, name):
        return getattr(self._conn, name)


_DB = None


def db():
    global _DB
    if _DB is None:
        c = sqlite3.connect(':memory:')
        c.execute("CREATE TABLE t (id INTEGER PRIMARY KEY, n INTEGER, s TEXT)")
        c.executemany("INSERT INTO t VALUES (?, ?, ?)", ROWS)
        c.commit()
        _DB = c
    return _DB


def to_arg(f):
    if f is None:
        return None
    if f[0] == 'c':
        return (f[1], f[2], dval(f[3]))
    if f[0] == 'c2':
        return (f[1], dval(f[2]))
    if f[0] == 'or':
        return mtd_sql.SqlMethod._or(*[to_arg(x) for x in f[1]], **{k: dval(v) for k, v in f[2].items()})
    raise AssertionError(f)


def execute(case):
    """-> (rows, log, exception)"""
    conn = SpyConn(db())
    try:
        m = mtd_sql.SqlMethod(SELECT, order_by=case['default_order'])
        args = [to_arg(f) for f in case['filters']]
        kw = {k: dval(v) for k, v in case['kwargs'].items()}
        if case['order'] is not None:
            kw['_order_by'] = case['order']
        if case['scalars']:
            kw['_as_scalars'] = True
        if case['api'] == 'all':
            rows = [r for r in m.all(conn, *args, **kw)]
        else:
            rows = m.list(conn, *args, **kw)
            if not isinstance(rows, list):
                return rows, conn.log, TypeError(f"list() returned {type(rows).__name__}")
        return rows, conn.log, None
    except Exception as e:      # noqa - code under test / db driver may raise anything
        return None, conn.log, e


def distinctive_texts(conj):
    out = set()
    for kind, v in (p for c in conj for p in params_of(c)):
        for x in (v if kind == 'set' else [v]):
            if x is None:
                continue
            t = str(x)
            if len(t) >= 3 and t not in SELECT and t.upper() not in ('NOT', 'AND', 'NULL', 'LIKE', 'FALSE'):
                out.add(t)
    return out


def evaluate(case, localise_ok=True):
    """-> list of (clause, key-suffix, text)"""
    out = []
    conj = whole_intent(case)
    want, ordered = expected_rows(case)
    rows, log, err = execute(case)
    descr = describe(case)
    if err is not None:
        return [('rows_match_intent', 'exception-' + type(err).__name__,
                 f"{descr} raises {type(err).__name__}: {err}  (statement: {log[-1] if log else None})")]
    try:
        got = [tuple(r) for r in rows] if not case['scalars'] else list(rows)
    except TypeError:
        got = list(rows)
    if case['scalars']:
        want_c = [r[0] for r in want]
    else:
        want_c = want
    same = (got == want_c) if ordered else (sorted(got, key=repr) == sorted(want_c, key=repr))
    if not same:
        if ordered and sorted(got, key=repr) == sorted(want_c, key=repr):
            ks = 'order'
        else:
            ks = localise(case) if localise_ok else 'unlocalised'
        out.append(('rows_match_intent', ks,
                    f"{descr} returns {got}, intended {want_c}  (statement: {log[-1] if log else None})"))
    # values bound
    if len(log) != 1:
        out.append(('values_bound', 'statements', f"{descr}: {len(log)} statements executed"))
    else:
        sql, params = log[0]
        if not isinstance(sql, str) or isinstance(params, dict):
            out.append(('values_bound', 'shape', f"{descr}: execute({sql!r}, {params!r})"))
            return out
        if sql.count('?') != len(params):
            out.append(('values_bound', 'placeholder-count',
                        f"{descr}: {sql.count('?')} placeholders for {len(params)} parameters: {sql!r} {params!r}"))
        exp = [p for c in conj for p in params_of(c)]
        pos, ok = 0, True
        for kind, v in exp:
            if kind == 'v':
                ok = ok and pos < len(params) and type(params[pos]) is type(v) and params[pos] == v
                pos += 1
            else:
                seg = params[pos:pos + len(v)]
                ok = ok and sorted(seg, key=repr) == v
                pos += len(v)
        if not ok or pos != len(params):
            out.append(('values_bound', 'parameter-order',
                        f"{descr}: parameters {params!r}, intended operand values {exp!r}, sql {sql!r}"))
        for t in sorted(distinctive_texts(conj)):
            if t in sql:
                out.append(('values_bound', 'value-in-sql', f"{descr}: operand text {t!r} occurs in the SQL {sql!r}"))
                break
    return out


def sub_filters(f):
    """the filter itself and, for OR groups, everything inside (smallest first)"""
    if f is None:
        return []
    if f[0] != 'or':
        return [f]
    out = []
    for x in f[1]:
        out += sub_filters(x)
    out += [['c2', k, v] for k, v in sorted(f[2].items())]
    return out + [f]


def localise(case):
    """class of a row mismatch = kind of the smallest sub-condition that already mismatches alone"""
    cands = []
    for f in case['filters']:
        cands += sub_filters(f)
    cands += [['c2', k, v] for k, v in sorted(case['kwargs'].items())]
    cands.sort(key=lambda f: len(repr(f)))
    for f in cands:
        sub = mk_case([f], order='id')
        if any(cl == 'rows_match_intent' for cl, _k, _t in evaluate(sub, localise_ok=False)):
            c = intent(f)
            if c[0] == 'or':
                return 'or-empty' if not c[1] else 'or-group'
            return sorted(leaf_kinds(c))[0]
    for k, v in sorted(case['kwargs'].items()):
        sub = mk_case([], {k: v}, order='id')
        if any(cl == 'rows_match_intent' for cl, _k, _t in evaluate(sub, localise_ok=False)):
            return 'kwargs'
    return 'combination'


def leaf_kinds(c):
    if c[0] == 'or':
        ks = {'or-empty'} if not c[1] else {'or'}
        for x in c[1]:
            ks |= leaf_kinds(x)
        return ks
    if c[0] == 'const':
        return {'empty-in'}
    if c[0] == 'cmp' and c[3] is None:
        return {'cmp-null'}
    return {c[0]}


def describe(case):
    def d(f):
        if f is None:
            return 'None'
        if f[0] == 'c':
            return repr((f[1], f[2], dval(f[3])))
        if f[0] == 'c2':
            return repr((f[1], dval(f[2])))
        return '_or(' + ', '.join([d(x) for x in f[1]] + [f"{k}={dval(v)!r}" for k, v in sorted(f[2].items())]) + ')'
    parts = [d(f) for f in case['filters']] + [f"{k}={dval(v)!r}" for k, v in sorted(case['kwargs'].items())]
    if case['order'] is not None:
        parts.append(f"_order_by={case['order']!r}")
    if case['scalars']:
        parts.append("_as_scalars=True")
    dflt = f", order_by={case['default_order']!r}" if case['default_order'] else ''
    return f"SqlMethod(...{dflt}).{case['api']}(conn, {', '.join(parts)})"


# ------------------------------------------------------------------ generation
def mk_case(filters, kwargs=None, order=None, default_order=None, api='list', scalars=False):
    return {'filters': filters, 'kwargs': kwargs or {}, 'order': order, 'default_order': default_order,
            'api': api, 'scalars': scalars}


def values_for(field):
    return NUM_VALUES if field in ('n', 'id') else STR_VALUES


def all_leaves():
    """every single condition: field x operator x operand pool (type-matched)"""
    for field in ('n', 's'):
        vals = values_for(field)
        for op in CMP_OPS:
            for v in vals:
                yield ['c', field, op, v]
        for v in vals:
            yield ['c2', field, v]
        nn = [v for v in vals if v is not None]
        colls = [[], [nn[0]], [nn[1], nn[2]], [nn[0], None], [None], nn[:4], [nn[-1], nn[-1]]]
        for op in ('IN', 'NOT IN', '=', '!=', 'in', 'Not In'):
            for members_ in colls:
                for wrap in ('list', 'tuple', 'set'):
                    if wrap == 'set' and op in ('=', '!='):
                        continue        # comparison with a set: outside the domain (pre-condition)
                    m = members_
                    if wrap == 'set':
                        m = list(dict.fromkeys(members_))
                    yield ['c', field, op, {wrap: m}]
        for members_ in ([], [nn[0]], [nn[1], nn[2]]):
            yield ['c2', field, {'list': members_}]
            yield ['c2', field, {'tuple': members_}]
        for op in ('IS NULL', 'IS NOT NULL', 'is null'):
            yield ['c', field, op, None]
        for op in ('LIKE', 'NOT LIKE', 'like'):
            for p in (LIKE_PATTERNS if field == 's' else NUM_LIKE):
                yield ['c', field, op, p]


def g_leaf(rnd, leaves):
    return rnd.choice(leaves)


def g_or(rnd, leaves, depth=1):
    n = rnd.choice([0, 1, 2, 2, 3])
    subs = []
    for _ in range(n):
        if depth < 2 and rnd.random() < .15:
            subs.append(g_or(rnd, leaves, depth + 1))
        else:
            subs.append(g_leaf(rnd, leaves))
    kw = {}
    if rnd.random() < .25:
        kw = g_kwargs(rnd)
    return ['or', subs, kw]


def g_kwargs(rnd):
    kw = {}
    for field in rnd.sample(['n', 's', 'id'], rnd.choice([1, 1, 2])):
        vals = values_for(field)
        x = rnd.random()
        if x < .7:
            kw[field] = rnd.choice(vals)
        else:
            nn = [v for v in vals if v is not None]
            kw[field] = {rnd.choice(['list', 'tuple']): rnd.sample(nn, rnd.choice([0, 1, 2]))}
    return kw


def gen_cases(tier, seed):
    rnd = random.Random(seed * 104729 + 15)
    leaves = list(all_leaves())
    # 1. every single condition, alone
    for lf in leaves:
        yield mk_case([lf], order='id')
    # 2. no filter at all / only ignored arguments / every order
    for o in ORDERS:
        yield mk_case([], order=o)
        yield mk_case([None, None], default_order=o)
        yield mk_case([None, ['c', 'n', '>=', 0]], order=o, default_order='id DESC')
    # 3. OR groups: empty, singleton, every pair from a spread of leaves
    yield mk_case([['or', [], {}]], order='id')
    yield mk_case([['or', [], {}], ['c', 'n', '=', 2]], order='id')
    yield mk_case([['or', [['or', [], {}], ['c', 'n', '=', 2]], {}]], order='id')
    spread = leaves[::7] if tier == 'quick' else leaves[::3]
    for i, a in enumerate(spread):
        yield mk_case([['or', [a], {}]], order='id')
        for b_ in spread[i + 1::(5 if tier == 'quick' else 2)]:
            yield mk_case([['or', [a, b_], {}]], order='id')
            yield mk_case([a, b_], order='id DESC')
    # 4. kwargs filters
    for field in ('n', 's', 'id'):
        for v in values_for(field):
            yield mk_case([], {field: v}, order='id')
    yield mk_case([], {'n': {'list': [1, 2]}, 's': None}, order='id')
    yield mk_case([], {'n': {'tuple': []}}, order='id')
    yield mk_case([['or', [], {'n': 1, 's': "o'q"}]], order='id')
    # 5. seeded trees
    n_rand = 1200 if tier == 'quick' else 25000
    for _ in range(n_rand):
        filters = []
        for _k in range(rnd.choice([1, 1, 2, 2, 3])):
            x = rnd.random()
            if x < .12:
                filters.append(None)
            elif x < .5:
                filters.append(g_or(rnd, leaves))
            else:
                filters.append(g_leaf(rnd, leaves))
        kw = g_kwargs(rnd) if rnd.random() < .3 else {}
        yield mk_case(filters, kw, order=rnd.choice(ORDERS), default_order=rnd.choice([None, None, 'id', 'n DESC, id']),
                      api=rnd.choice(['list', 'list', 'all']), scalars=rnd.random() < .15)


NULL_SENSITIVE = {'in', 'cmp', 'cmp-null', 'like', 'isnull'}


def run(b):
    for case in gen_cases(b.tier, b.seed):
        try:
            conj = whole_intent(case)
            kinds = {k for c in conj for k in leaf_kinds(c)}
            for k in kinds:
                b.hit(k)
            if any(f is None for f in case['filters']):
                b.hit('ignored-None-argument')
            if case['kwargs']:
                b.hit('kwargs-filter')
            b.case(case, nontrivial=bool(kinds & NULL_SENSITIVE), sample=(b.evaluations % 499 == 0))
            res = evaluate(case)
        except Exception as e:      # noqa - bug of this harness
            b.error(f"harness exception {type(e).__name__}: {e} on {case}")
            continue
        for clause, ksuf, text in res:
            b.fail(f"C15.{clause}", f"C15.{clause}:{ksuf}", text, case)
    b.require_reach(['empty-in', 'or', 'or-empty', 'like', 'isnull', 'in', 'cmp', 'cmp-null',
                     'ignored-None-argument', 'kwargs-filter'])


def replay_case(case):
    res = evaluate(case)
    return (not res), [f"{c} [{k}]: {t}" for c, k, t in res]
