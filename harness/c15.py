"""C15 bounded complement: SqlMethod filters (ak/mtd_sql.py) executed for real on sqlite3.

The text/parameter construction is decided by the proof tier; what is *assumed* there - that the DB
engine, given the rendered statement and the bound values, returns exactly the rows for which the
intended condition holds under SQL three-valued logic - is validated here on an in-memory sqlite3
table, end to end through SqlMethod(...).list / .all.

Top-level clauses:
  rows_match_intent   rows returned == rows of the table for which my own three-valued evaluator of
                      the INTENDED condition (DESIGN appendix D.4 `intent`) gives TRUE, in the
                      requested order (as a multiset when no order is requested)
  values_bound        (spy on cursor.execute through a wrapping connection) one statement, number of
                      '?' placeholders == number of parameters, parameters == the operand values of
                      the intended tree left to right (members of a set in any order), and no
                      distinctive operand text occurs in the SQL string

A case: {'filters': [...], 'kwargs': {...}, 'order': ..., 'default_order': ..., 'api': 'list'|'all',
         'scalars': bool}; a filter is null (ignored argument), ['c', field, op, value] (3-tuple),
['c2', field, value] (2-tuple), ['or', [filters], {kwargs}].  Values: JSON scalars, or
{'list': [...]}, {'tuple': [...]}, {'set': [...]}.
A static condition (caller-supplied SQL text, e.g. "t.S = 'abc'") is ['st', text, ast, flags]: `text` is what is
passed to SqlMethod, `ast` is the condition it was rendered from by THIS module (render_static) - the meaning of the
text "as written", evaluated by holds3 - and `flags` are style notes of the rendering (reach events only).  The
three-valued evaluator, not the implementation, says which rows the text selects; that sqlite reads the text the same
way is validated by the run on the unchanged tree.
Optional key 'table': 'mix' runs the case on the 12-row table `tm` whose text values differ by letter case only
('abc' / 'ABC' / 'Abc', "o'q" / "O'Q", 'actor' / 'ACTOR'); 'big' runs the case on the 1500-row table `tb` (same columns) - the table of the
long IN / NOT IN value lists (more values than LONG_LIST, the per-list limits / chunk sizes of db engines
and drivers); absent = the 6-row table `t`.
"""
import random
import re
import sqlite3

from ak import mtd_sql

# id, n (INTEGER), s (TEXT)
ROWS = [
    (1, 1, ''),
    (2, 2, "o'q"),
    (3, None, '%'),
    (4, 2, None),
    (5, 0, 'abc'),
    (6, 7731, "x'; DROP TABLE t; --"),
]
COLS = ['id', 'n', 's']
SELECT = "SELECT id, n, s FROM t"

# the big table: enough rows for value lists of more than a thousand members, about half of which are
# present; NULLs and duplicates in n and s, quotes in s
BIG_N = 1500


def _big_row(i):
    n = None if i % 13 == 0 else (i * 7) % 1000
    if i % 17 == 0:
        s_ = None
    elif i % 19 == 0:
        s_ = "o'%d" % i
    else:
        s_ = "v%d" % (i % 700)
    return (i, n, s_)


BIG_ROWS = [_big_row(i) for i in range(1, BIG_N + 1)]
# the mixed-case table: text values which differ by letter case only, a quote, a '?', a '_'; n == id on some rows
MIX_ROWS = [
    (1, 1, 'abc'),
    (2, 2, 'ABC'),
    (3, None, 'Abc'),
    (4, 2, None),
    (5, 0, "o'q"),
    (6, 7, "O'Q"),
    (7, 3, ''),
    (8, 8, 'a?c'),
    (9, 5, 'actor'),
    (10, 10, 'ACTOR'),
    (11, 1, 'a_c'),
    (12, 12, 'James'),
]
TABLES = {None: ('t', ROWS), 'big': ('tb', BIG_ROWS), 'mix': ('tm', MIX_ROWS)}
LONG_LIST = 500         # a value list with more members than this is "long"
LONG_LENS_QUICK = [501, 600, 1001, 1200]
LONG_LENS = [501, 512, 600, 999, 1000, 1001, 1200, 1501, 2100]
# value pools of the long lists: about half of the members occur in the table
BIG_POOLS = {
    'id': list(range(1, 2 * BIG_N + 1)),
    'n': list(range(-500, 2000)),
    's': ["v%d" % k for k in range(2100)] + ["o'%d" % k for k in range(0, 2 * BIG_N, 19)] + ['', '%', 'zz9zz'],
}
BIG_SCALARS = {
    'id': [1, 2, 750, 1500, 2000],
    'n': [None, 0, 5, 500, 993, -5],
    's': [None, '', 'v0', 'v12', 'v699', "o'19", 'zz9zz'],
}
BIG_LIKE = {'n': ['%', '7%', '_', '%1', '99_'], 's': ['%', 'v1%', "o'%", '%9', 'v_', 'V12', '']}


def table_of(case):
    return TABLES[case.get('table')]


def select_of(case):
    return "SELECT id, n, s FROM " + table_of(case)[0]

NUM_VALUES = [None, 0, 1, 2, 3, 7731, -5]
STR_VALUES = [None, '', "o'q", '%', 'abc', 'ABC', "x'; DROP TABLE t; --", 'zz9zz']
LIKE_PATTERNS = ['%', '', 'a%', '%c', "o'q", "%'%", '_', 'A_C', '\\%', 'x%--', '___', '%%', 'zz9zz%']
NUM_LIKE = ['%', '2', '7%', '_', '%1']
CMP_OPS = ['=', '!=', '>', '<', '>=', '<=']
ORDERS = [None, 'id', 'id DESC', 'n, id', 'n DESC, id DESC', 's, id', 's DESC, id', 'n, s DESC, id']


# ------------------------------------------------------------------ values
def dval(v):
    if isinstance(v, dict):
        if 'list' in v:
            return [dval(x) for x in v['list']]
        if 'tuple' in v:
            return tuple(dval(x) for x in v['tuple'])
        if 'set' in v:
            return set(dval(x) for x in v['set'])
        raise ValueError(v)
    return v


def members(v):
    k = next(iter(v))
    return list(v[k])


# ------------------------------------------------------------------ intent (the oracle)
def intent_leaf(field, op, v):
    """v is the JSON form; returns the intended condition tree"""
    op = op.upper()
    coll = isinstance(v, dict)
    if op in ('=', '!='):
        if v is None:
            return ('isnull', field, op == '!=')
        if coll and ('list' in v or 'tuple' in v):
            return intent_leaf(field, 'IN' if op == '=' else 'NOT IN', v)
        if coll:
            raise AssertionError("harness: comparison with a set is outside the domain")
        return ('cmp', field, op, v)
    if op in ('IN', 'NOT IN'):
        vs = members(v)
        if not vs:
            return ('const', op == 'NOT IN')
        return ('in', field, op == 'NOT IN', vs, 'set' in v)
    if op in ('IS NULL', 'IS NOT NULL'):
        return ('isnull', field, op == 'IS NOT NULL')
    if op in ('LIKE', 'NOT LIKE'):
        return ('like', field, op == 'NOT LIKE', v)
    if op in ('>', '<', '>=', '<='):
        return ('cmp', field, op, v)
    raise AssertionError(f"harness: operator {op}")


def intent(f):
    if f[0] == 'c':
        return intent_leaf(f[1], f[2], f[3])
    if f[0] == 'c2':
        return intent_leaf(f[1], '=', f[2])
    if f[0] == 'or':
        subs = [intent(x) for x in f[1]]
        subs += [intent_leaf(k, '=', v) for k, v in sorted(f[2].items())]
        return ('or', subs)
    if f[0] == 'st':
        return ('static', f[1], f[2])       # the condition as written: the tree the text was rendered from
    raise AssertionError(f"harness: filter {f}")


def whole_intent(case):
    conj = [intent(f) for f in case['filters'] if f is not None]
    conj += [intent_leaf(k, '=', v) for k, v in sorted(case['kwargs'].items())]
    return conj


def t_not(x):
    return None if x is None else (not x)


def t_or(xs):
    if any(x is True for x in xs):
        return True
    if any(x is None for x in xs):
        return None
    return False


def t_and(xs):
    if any(x is False for x in xs):
        return False
    if any(x is None for x in xs):
        return None
    return True


def sql_eq(a, b_):
    if a is None or b_ is None:
        return None
    return a == b_


def sql_like(value, pattern):
    """sqlite LIKE: % any sequence, _ one character, ASCII case-insensitive, no escape character"""
    if value is None or pattern is None:
        return None
    text = (str(value)).lower()
    pat = pattern.lower()
    memo = {}

    def m(i, j):
        if (i, j) in memo:
            return memo[i, j]
        if j == len(pat):
            r = i == len(text)
        elif pat[j] == '%':
            r = any(m(k, j + 1) for k in range(i, len(text) + 1))
        elif i < len(text) and (pat[j] == '_' or pat[j] == text[i]):
            r = m(i + 1, j + 1)
        else:
            r = False
        memo[i, j] = r
        return r
    return m(0, 0)


_IN_INDEX = {}


def in3(a, c):
    """three-valued  a = v1 OR a = v2 OR ...  over the (non-empty) member list c[3]: the same value as
    t_or([sql_eq(a, v) for v in c[3]]), computed through an index of the members (lists of > 1000 members
    against > 1000 rows)"""
    vs = c[3]
    if len(vs) <= 16:
        return t_or([sql_eq(a, v) for v in vs])
    ent = _IN_INDEX.get(id(vs))
    if ent is None or ent[0] is not vs:
        if len(_IN_INDEX) > 64:
            _IN_INDEX.clear()
        ent = (vs, {v for v in vs if v is not None}, any(v is None for v in vs))
        _IN_INDEX[id(vs)] = ent
    if a is None:
        return None                 # NULL = v is unknown for every member
    if a in ent[1]:             # Python == of the member, as in sql_eq
        return True
    return None if ent[2] else False


def holds3(c, row):
    """three-valued truth of the intended condition on a row (dict)"""
    k = c[0]
    if k == 'const':
        return c[1]
    if k == 'isnull':
        r = row[c[1]] is None
        return (not r) if c[2] else r
    if k == 'cmp':
        a, op, v = row[c[1]], c[2], c[3]
        if a is None or v is None:
            return None
        if isinstance(a, str) != isinstance(v, str):
            raise AssertionError("harness: cross-type comparison generated")
        return {'=': a == v, '!=': a != v, '>': a > v, '<': a < v, '>=': a >= v, '<=': a <= v}[op]
    if k == 'in':
        r = in3(row[c[1]], c)
        return t_not(r) if c[2] else r
    if k == 'like':
        r = sql_like(row[c[1]], c[3])
        return t_not(r) if c[2] else r
    if k == 'or':
        return t_or([holds3(x, row) for x in c[1]]) if c[1] else False
    if k == 'static':
        return holds3(c[2], row)
    # the remaining kinds occur inside static conditions only
    if k == 'and':
        return t_and([holds3(x, row) for x in c[1]])
    if k == 'not':
        return t_not(holds3(c[1], row))
    if k == 'colcmp':
        a, op, v = row[c[1]], c[2], row[c[3]]
        if a is None or v is None:
            return None
        if isinstance(a, str) != isinstance(v, str):
            raise AssertionError("harness: cross-type column comparison generated")
        return {'=': a == v, '!=': a != v, '>': a > v, '<': a < v, '>=': a >= v, '<=': a <= v}[op]
    raise AssertionError(c)


def params_of(c):
    """operand values left to right; a set contributes an unordered group"""
    k = c[0]
    if k in ('const', 'isnull', 'static'):
        return []
    if k in ('cmp', 'like'):
        return [('v', c[3])]
    if k == 'in':
        return [('set', sorted(c[3], key=repr))] if c[4] else [('v', x) for x in c[3]]
    if k == 'or':
        return [p for x in c[1] for p in params_of(x)]
    raise AssertionError(c)


def order_key(order):
    """'n DESC, id' -> function sorting row dicts the way sqlite does (NULL smallest, binary text order)"""
    keys = []
    for part in order.split(','):
        w = part.split()
        keys.append((w[0], len(w) > 1 and w[1].upper() == 'DESC'))

    def sort(rows):
        rows = list(rows)
        for col, desc in reversed(keys):
            rows.sort(key=lambda r: (0,) if r[col] is None else (1, r[col]), reverse=desc)
        return rows
    return sort


def expected_rows(case):
    conj = whole_intent(case)
    rows = [dict(zip(COLS, r)) for r in table_of(case)[1]]
    sel = [r for r in rows if all(holds3(c, r) is True for c in conj)]
    order = case['order'] if case['order'] is not None else case['default_order']
    if order is not None:
        sel = order_key(order)(sel)
    return [tuple(r[c] for c in COLS) for r in sel], order is not None


# ------------------------------------------------------------------ real execution
class SpyCursor:
    def __init__(self, cur, log):
        self._cur, self._log = cur, log

    def execute(self, sql, params=()):
        self._log.append((sql, list(params) if not isinstance(params, dict) else params))
        return self._cur.execute(sql, params)

    def __iter__(self):
        return iter(self._cur)

    def __getattr__(self, name):
        return getattr(self._cur, name)


class SpyConn:
    """wrapping connection: records what reaches cursor.execute"""
    def __init__(self, conn):
        self._conn, self.log = conn, []

    def cursor(self):
        return SpyCursor(self._conn.cursor(), self.log)

    def __getattr__(self, name):
        return getattr(self._conn, name)


_DB = None


def db():
    global _DB
    if _DB is None:
        c = sqlite3.connect(':memory:')
        c.execute("CREATE TABLE t (id INTEGER PRIMARY KEY, n INTEGER, s TEXT)")
        c.executemany("INSERT INTO t VALUES (?, ?, ?)", ROWS)
        c.execute("CREATE TABLE tb (id INTEGER PRIMARY KEY, n INTEGER, s TEXT)")
        c.executemany("INSERT INTO tb VALUES (?, ?, ?)", BIG_ROWS)
        c.execute("CREATE TABLE tm (id INTEGER PRIMARY KEY, n INTEGER, s TEXT)")
        c.executemany("INSERT INTO tm VALUES (?, ?, ?)", MIX_ROWS)
        c.commit()
        _DB = c
    return _DB


def to_arg(f):
    if f is None:
        return None
    if f[0] == 'c':
        return (f[1], f[2], dval(f[3]))
    if f[0] == 'c2':
        return (f[1], dval(f[2]))
    if f[0] == 'or':
        return mtd_sql.SqlMethod._or(*[to_arg(x) for x in f[1]], **{k: dval(v) for k, v in f[2].items()})
    if f[0] == 'st':
        return f[1]
    raise AssertionError(f)


def execute(case):
    """-> (rows, log, exception)"""
    conn = SpyConn(db())
    try:
        m = mtd_sql.SqlMethod(select_of(case), order_by=case['default_order'])
        args = [to_arg(f) for f in case['filters']]
        kw = {k: dval(v) for k, v in case['kwargs'].items()}
        if case['order'] is not None:
            kw['_order_by'] = case['order']
        if case['scalars']:
            kw['_as_scalars'] = True
        if case['api'] == 'all':
            rows = [r for r in m.all(conn, *args, **kw)]
        else:
            rows = m.list(conn, *args, **kw)
            if not isinstance(rows, list):
                return rows, conn.log, TypeError(f"list() returned {type(rows).__name__}")
        return rows, conn.log, None
    except Exception as e:      # noqa - code under test / db driver may raise anything
        return None, conn.log, e


def distinctive_texts(conj, select=SELECT):
    out = set()
    for kind, v in (p for c in conj for p in params_of(c)):
        for x in (v if kind == 'set' else [v]):
            if x is None:
                continue
            t = str(x)
            if len(t) >= 3 and t not in select and t.upper() not in ('NOT', 'AND', 'NULL', 'LIKE', 'FALSE'):
                out.add(t)
    return out


def short(x):
    """repr for messages: long collections and long placeholder runs are abbreviated"""
    if isinstance(x, str):
        return re.sub(r"\?(?:, \?){11,}", lambda m: f"?, ..<{m.group(0).count('?')} placeholders>.., ?", x)
    if isinstance(x, (list, tuple, set, frozenset)) and len(x) > 12:
        seq = sorted(x, key=repr) if isinstance(x, (set, frozenset)) else list(x)
        body = (', '.join(short_r(v) for v in seq[:4]) + f", ..<{len(seq)} values>.., "
                + ', '.join(short_r(v) for v in seq[-2:]))
        if isinstance(x, list):
            return '[' + body + ']'
        if isinstance(x, tuple):
            return '(' + body + ')'
        return '{' + body + '}'
    if isinstance(x, list):
        return '[' + ', '.join(short_r(v) for v in x) + ']'
    if isinstance(x, tuple):
        return '(' + ', '.join(short_r(v) for v in x) + (',)' if len(x) == 1 else ')')
    return repr(x)


def short_r(x):
    return repr(short(x)) if isinstance(x, str) else short(x)


def short_stmt(entry):
    if entry is None:
        return None
    sql, params = entry
    return f"({short_r(sql)}, {short_r(params)})"


def evaluate(case, localise_ok=True):
    """-> list of (clause, key-suffix, text)"""
    out = []
    conj = whole_intent(case)
    want, ordered = expected_rows(case)
    rows, log, err = execute(case)
    descr = describe(case)
    if err is not None:
        return [('rows_match_intent', 'exception-' + type(err).__name__,
                 f"{descr} raises {type(err).__name__}: {err}  (statement: {short_stmt(log[-1]) if log else None})")]
    try:
        got = [tuple(r) for r in rows] if not case['scalars'] else list(rows)
    except TypeError:
        got = list(rows)
    if case['scalars']:
        want_c = [r[0] for r in want]
    else:
        want_c = want
    same = (got == want_c) if ordered else (sorted(got, key=repr) == sorted(want_c, key=repr))
    if not same:
        if ordered and sorted(got, key=repr) == sorted(want_c, key=repr):
            ks = 'order'
        else:
            ks = localise(case) if localise_ok else 'unlocalised'
        out.append(('rows_match_intent', ks,
                    f"{descr} returns {short(got)}, intended {short(want_c)}  (statement: {short_stmt(log[-1]) if log else None})"))
    # values bound
    if len(log) != 1:
        out.append(('values_bound', 'statements', f"{descr}: {len(log)} statements executed"))
    else:
        sql, params = log[0]
        if not isinstance(sql, str) or isinstance(params, dict):
            out.append(('values_bound', 'shape', f"{descr}: execute({short_r(sql)}, {short_r(params)})"))
            return out
        statics = static_texts(case)
        # a '?' inside a text literal of a static condition is text, not a placeholder
        n_static_q = sum(t.count('?') for t in statics)
        if sql.count('?') - n_static_q != len(params):
            out.append(('values_bound', 'placeholder-count',
                        f"{descr}: {sql.count('?') - n_static_q} placeholders for {len(params)} parameters: {short_r(sql)} {short_r(params)}"))
        exp = [p for c in conj for p in params_of(c)]
        pos, ok = 0, True
        for kind, v in exp:
            if kind == 'v':
                ok = ok and pos < len(params) and type(params[pos]) is type(v) and params[pos] == v
                pos += 1
            else:
                seg = params[pos:pos + len(v)]
                ok = ok and sorted(seg, key=repr) == v
                pos += len(v)
        if not ok or pos != len(params):
            out.append(('values_bound', 'parameter-order',
                        f"{descr}: parameters {short_r(params)}, intended operand values "
                        f"{short_r([v for _k, v in exp])}, sql {short_r(sql)}"))
        for t in sorted(distinctive_texts(conj, select_of(case))):
            # the caller's own static texts may contain the same characters as an operand (in whatever letter
            # case): those occurrences are the caller's code, every further one is a value that became text
            if sql.count(t) > sum(st.lower().count(t.lower()) for st in statics):
                out.append(('values_bound', 'value-in-sql', f"{descr}: operand text {t!r} occurs in the SQL {short_r(sql)}"))
                break
        # supporting clause (not in the property statement): the static texts reach the statement verbatim, in order
        pos = 0
        for st in statics:
            at = sql.find(st, pos)
            if at < 0:
                out.append((SUPPORTING, 'static-verbatim',
                            f"{descr}: the static condition {st!r} does not occur verbatim (in argument order) in the "
                            f"statement {short_r(sql)}"))
                break
            pos = at + len(st)
    return out


SUPPORTING = 'supporting'


def static_filters(f):
    """the static conditions inside a filter, left to right"""
    if f is None:
        return []
    if f[0] == 'st':
        return [f]
    if f[0] == 'or':
        return [x for sub in f[1] for x in static_filters(sub)]
    return []


def static_texts(case):
    return [st[1] for f in case['filters'] for st in static_filters(f)]


def sub_filters(f):
    """the filter itself and, for OR groups, everything inside (smallest first)"""
    if f is None:
        return []
    if f[0] != 'or':
        return [f]
    out = []
    for x in f[1]:
        out += sub_filters(x)
    out += [['c2', k, v] for k, v in sorted(f[2].items())]
    return out + [f]


def localise(case):
    """class of a row mismatch = kind of the smallest sub-condition that already mismatches alone"""
    cands = []
    for f in case['filters']:
        cands += sub_filters(f)
    cands += [['c2', k, v] for k, v in sorted(case['kwargs'].items())]
    cands.sort(key=lambda f: len(repr(f)))
    for f in cands:
        sub = mk_case([f], order='id', table=case.get('table'))
        if any(cl == 'rows_match_intent' for cl, _k, _t in evaluate(sub, localise_ok=False)):
            c = intent(f)
            if c[0] == 'or':
                return 'or-empty' if not c[1] else 'or-group'
            ks = leaf_kinds(c)
            for long_kind in ('not-in-long', 'in-long'):
                if long_kind in ks:
                    return long_kind
            return sorted(ks - LONG_EVENTS)[0]
    for k, v in sorted(case['kwargs'].items()):
        sub = mk_case([], {k: v}, order='id', table=case.get('table'))
        if any(cl == 'rows_match_intent' for cl, _k, _t in evaluate(sub, localise_ok=False)):
            return 'kwargs'
    return 'combination'


def leaf_kinds(c):
    if c[0] == 'or':
        ks = {'or-empty'} if not c[1] else {'or'}
        for x in c[1]:
            ks |= leaf_kinds(x)
        return ks
    if c[0] == 'const':
        return {'empty-in'}
    if c[0] == 'static':
        return {'static'}
    if c[0] == 'cmp' and c[3] is None:
        return {'cmp-null'}
    if c[0] == 'in' and len(c[3]) > LONG_LIST:
        return {'in', 'not-in-long' if c[2] else 'in-long'}
    return {c[0]}


LONG_EVENTS = {'in-long', 'not-in-long', 'in-long-inside-or', 'not-in-long-inside-or'}


def long_events(conj):
    """reach events of the long value lists: IN / NOT IN with more than LONG_LIST members, at top level
    (AND-ed) and inside OR groups"""
    ev = set()
    for c in conj:
        ks = leaf_kinds(c)
        for k in ('in-long', 'not-in-long'):
            if k in ks:
                ev.add(k)
                if c[0] == 'or':
                    ev.add(k + '-inside-or')
    return ev


def describe(case):
    def d(f):
        if f is None:
            return 'None'
        if f[0] == 'c':
            return short((f[1], f[2], dval(f[3])))
        if f[0] == 'c2':
            return short((f[1], dval(f[2])))
        if f[0] == 'st':
            return repr(f[1])
        return '_or(' + ', '.join([d(x) for x in f[1]] + [f"{k}={short_r(dval(v))}" for k, v in sorted(f[2].items())]) + ')'
    parts = [d(f) for f in case['filters']] + [f"{k}={short_r(dval(v))}" for k, v in sorted(case['kwargs'].items())]
    if case['order'] is not None:
        parts.append(f"_order_by={case['order']!r}")
    if case['scalars']:
        parts.append("_as_scalars=True")
    dflt = f", order_by={case['default_order']!r}" if case['default_order'] else ''
    tbl = f"'... FROM {table_of(case)[0]}' [{len(table_of(case)[1])} rows]" if case.get('table') else '...'
    return f"SqlMethod({tbl}{dflt}).{case['api']}(conn, {', '.join(parts)})"


# ------------------------------------------------------------------ generation
def mk_case(filters, kwargs=None, order=None, default_order=None, api='list', scalars=False, table=None):
    case = {'filters': filters, 'kwargs': kwargs or {}, 'order': order, 'default_order': default_order,
            'api': api, 'scalars': scalars}
    if table is not None:
        case['table'] = table
    return case


def values_for(field):
    return NUM_VALUES if field in ('n', 'id') else STR_VALUES


def all_leaves():
    """every single condition: field x operator x operand pool (type-matched)"""
    for field in ('n', 's'):
        vals = values_for(field)
        for op in CMP_OPS:
            for v in vals:
                yield ['c', field, op, v]
        for v in vals:
            yield ['c2', field, v]
        nn = [v for v in vals if v is not None]
        colls = [[], [nn[0]], [nn[1], nn[2]], [nn[0], None], [None], nn[:4], [nn[-1], nn[-1]]]
        for op in ('IN', 'NOT IN', '=', '!=', 'in', 'Not In'):
            for members_ in colls:
                for wrap in ('list', 'tuple', 'set'):
                    if wrap == 'set' and op in ('=', '!='):
                        continue        # comparison with a set: outside the domain (pre-condition)
                    m = members_
                    if wrap == 'set':
                        m = list(dict.fromkeys(members_))
                    yield ['c', field, op, {wrap: m}]
        for members_ in ([], [nn[0]], [nn[1], nn[2]]):
            yield ['c2', field, {'list': members_}]
            yield ['c2', field, {'tuple': members_}]
        for op in ('IS NULL', 'IS NOT NULL', 'is null'):
            yield ['c', field, op, None]
        for op in ('LIKE', 'NOT LIKE', 'like'):
            for p in (LIKE_PATTERNS if field == 's' else NUM_LIKE):
                yield ['c', field, op, p]


def g_leaf(rnd, leaves):
    return rnd.choice(leaves)


def g_or(rnd, leaves, depth=1):
    n = rnd.choice([0, 1, 2, 2, 3])
    subs = []
    for _ in range(n):
        if depth < 2 and rnd.random() < .15:
            subs.append(g_or(rnd, leaves, depth + 1))
        else:
            subs.append(g_leaf(rnd, leaves))
    kw = {}
    if rnd.random() < .25:
        kw = g_kwargs(rnd)
    return ['or', subs, kw]


def g_kwargs(rnd):
    kw = {}
    for field in rnd.sample(['n', 's', 'id'], rnd.choice([1, 1, 2])):
        vals = values_for(field)
        x = rnd.random()
        if x < .7:
            kw[field] = rnd.choice(vals)
        else:
            nn = [v for v in vals if v is not None]
            kw[field] = {rnd.choice(['list', 'tuple']): rnd.sample(nn, rnd.choice([0, 1, 2]))}
    return kw


# ---- long value lists on the big table
def long_list(rnd, field, k, wrap, with_null=False, dup=False):
    """k members drawn from the pool of the field (about half of them occur in the table)"""
    k = min(k, len(BIG_POOLS[field]))
    m = rnd.sample(BIG_POOLS[field], k)
    if wrap != 'set':
        if dup:
            m[rnd.randrange(k)] = m[rnd.randrange(k)]
            m[0] = m[-1]
    if with_null:
        m[rnd.randrange(k)] = None
    if wrap == 'set':
        m = list(dict.fromkeys(m))
    return {wrap: m}


def g_long_leaf(rnd, lens, field=None, negated=None):
    field = field or rnd.choice(['id', 'id', 'n', 's'])
    k = rnd.choice(lens)
    k = min(k, len(BIG_POOLS[field]))
    if negated is None:
        negated = rnd.random() < .6
    form = rnd.choice(['op', 'op', 'op', 'cmp', 'c2'] if not negated else ['op', 'op', 'cmp'])
    wrap = rnd.choice(['list', 'tuple', 'set'] if form == 'op' else ['list', 'tuple'])
    v = long_list(rnd, field, k, wrap, with_null=rnd.random() < .12, dup=rnd.random() < .3)
    if form == 'op':
        op = rnd.choice(['NOT IN', 'NOT IN', 'not in', 'Not In'] if negated else ['IN', 'IN', 'in'])
        return ['c', field, op, v]
    if form == 'cmp':
        return ['c', field, '!=' if negated else '=', v]
    return ['c2', field, v]


def g_big_small_leaf(rnd):
    """an ordinary condition on the big table"""
    field = rnd.choice(['id', 'n', 's'])
    vals = BIG_SCALARS[field]
    x = rnd.random()
    if x < .4:
        return ['c', field, rnd.choice(CMP_OPS), rnd.choice(vals)]
    if x < .5:
        return ['c2', field, rnd.choice(vals)]
    if x < .65:
        return ['c', field, rnd.choice(['IS NULL', 'IS NOT NULL']), None]
    if x < .8 and field != 'id':
        return ['c', field, rnd.choice(['LIKE', 'NOT LIKE']), rnd.choice(BIG_LIKE[field])]
    nn = [v for v in vals if v is not None]
    m = rnd.sample(nn, rnd.choice([0, 1, 2, 3]))
    if rnd.random() < .2:
        m.append(None)
    return ['c', field, rnd.choice(['IN', 'NOT IN', '=', '!=']), {rnd.choice(['list', 'tuple']): m}]


def gen_big_cases(tier, seed):
    """long IN / NOT IN value lists (and the lengths around LONG_LIST) against the 1500-row table"""
    rnd = random.Random(seed * 7919 + 1515)
    quick = tier == 'quick'
    lens = LONG_LENS_QUICK if quick else LONG_LENS
    # 1. every form of a list condition x every length of the ladder, alone
    forms = [('c', 'IN'), ('c', 'NOT IN'), ('c', '='), ('c', '!='), ('c2', None), ('kw', None), ('c', 'not in')]
    fields = ['id', 'n', 's']
    i = 0
    for k in [LONG_LIST - 1, LONG_LIST] + lens:
        for form, op in forms:
            for wrap in ('list', 'tuple', 'set'):
                if wrap == 'set' and (form != 'c' or op in ('=', '!=')):
                    continue
                i += 1
                if quick and k != lens[0] and i % 4:
                    continue        # quick: the full grid for the first long length, a quarter of it elsewhere
                field = fields[i % 3]
                kk = min(k, len(BIG_POOLS[field]))
                v = long_list(rnd, field, kk, wrap, dup=(i % 5 == 0))
                if form == 'c':
                    yield mk_case([['c', field, op, v]], order='id', table='big')
                elif form == 'c2':
                    yield mk_case([['c2', field, v]], order='id', table='big')
                else:
                    yield mk_case([], {field: v}, order='id', table='big')
    # 2. a NULL among the members (NOT IN: no row at all; IN: as without it)
    for op in ('IN', 'NOT IN', '!='):
        yield mk_case([['c', 'n', op, long_list(rnd, 'n', lens[0], 'list', with_null=True)]], order='id', table='big')
    # 3. inside OR groups, AND-ed with each other and with ordinary conditions
    for k in lens[:2] if quick else lens:
        a_in = ['c', 'id', 'IN', long_list(rnd, 'id', k, 'list')]
        a_not = ['c', 'id', 'NOT IN', long_list(rnd, 'id', k, 'tuple')]
        n_in = ['c', 'n', '=', long_list(rnd, 'n', k, 'list')]
        n_not = ['c', 'n', 'NOT IN', long_list(rnd, 'n', k, 'set')]
        s_not = ['c', 's', '!=', long_list(rnd, 's', k, 'tuple')]
        yield mk_case([['or', [a_not], {}]], order='id', table='big')
        yield mk_case([['or', [a_in], {}]], order='id', table='big')
        yield mk_case([['or', [a_not, ['c', 'n', '=', 5]], {}]], order='id', table='big')
        yield mk_case([['or', [['c', 'n', '<', 5], a_not], {}]], order='n, id', table='big')
        yield mk_case([['or', [a_in, n_not], {}]], order='id DESC', table='big')
        yield mk_case([['or', [a_in, s_not], {'n': 7}]], order='id', table='big')
        yield mk_case([['or', [n_in, ['or', [s_not, ['c', 'id', '>', 1400]], {}]], {}]], order='id', table='big')
        yield mk_case([['or', [], {'id': long_list(rnd, 'id', k, 'list'), 's': 'v12'}]], order='id', table='big')
        yield mk_case([a_not, n_not], order='id', table='big')
        yield mk_case([a_not, s_not, ['c', 'n', '>=', 500]], order='s, id', table='big')
        yield mk_case([a_in, n_not], order='n DESC, id DESC', table='big', api='all')
        yield mk_case([a_not, None, ['or', [n_in, ['c', 's', 'LIKE', 'v1%']], {}]], {'n': {'list': [7, 14, 21]}},
                      order='id', table='big')
        yield mk_case([s_not], default_order='id', scalars=True, table='big')
        yield mk_case([n_not], table='big')
    # 4. seeded trees with at least one long list
    for _ in range(40 if quick else 1500):
        filters = []
        n_f = rnd.choice([1, 1, 2, 2, 3])
        where_long = rnd.randrange(n_f)
        for j in range(n_f):
            x = rnd.random()
            if j == where_long or x < .2:
                lf = g_long_leaf(rnd, lens)
                y = rnd.random()
                if y < .4:
                    others = [g_long_leaf(rnd, lens) if rnd.random() < .3 else g_big_small_leaf(rnd)
                              for _k in range(rnd.choice([0, 1, 1, 2]))]
                    subs = others + [lf]
                    rnd.shuffle(subs)
                    if len(subs) > 1 and rnd.random() < .2:
                        subs = [['or', subs[:-1], {}], subs[-1]]
                    filters.append(['or', subs, {}])
                else:
                    filters.append(lf)
            elif x < .3:
                filters.append(None)
            else:
                filters.append(g_big_small_leaf(rnd))
        kw = {}
        if rnd.random() < .2:
            field = rnd.choice(['id', 'n', 's'])
            if rnd.random() < .5:
                kw[field] = long_list(rnd, field, rnd.choice(lens), rnd.choice(['list', 'tuple']))
            else:
                kw[field] = rnd.choice(BIG_SCALARS[field])
        yield mk_case(filters, kw, order=rnd.choice(ORDERS), default_order=rnd.choice([None, None, 'id', 'n DESC, id']),
                      api=rnd.choice(['list', 'list', 'all']), scalars=rnd.random() < .15, table='big')


# ------------------------------------------------------------------ static conditions (caller-supplied SQL text)
# A static condition is generated as a small condition tree (the kinds of the intent tree, plus 'and', 'not' and
# 'colcmp' = column against column) and rendered to SQL text by render_static in varying styles: letter case of
# identifiers and keywords, table-qualified identifiers, spacing, '<>' / '==', literal first, parentheses.  Text
# literals are rendered with their letters exactly as in the tree: their letter case, quotes and '?' are data.
STATIC_TEXT_LITS = ['abc', 'ABC', 'Abc', "o'q", "O'Q", '', '%', 'a?c', 'actor', 'ACTOR', 'James', 'zz9zz',
                    "x'; DROP TABLE t; --", 'a_c']
MIRROR = {'=': '=', '!=': '!=', '<': '>', '>': '<', '<=': '>=', '>=': '<='}


def static_leaf_pool():
    out = []
    for v in STATIC_TEXT_LITS:
        for op in ('=', '!='):
            out.append(['cmp', 's', op, v])
    for v in ('abc', 'ABC', 'Abc', 'a'):
        for op in ('<', '>=', '>', '<='):
            out.append(['cmp', 's', op, v])
    for v in (0, 2, -5, 7731):
        for op in ('=', '!=', '<', '>='):
            out.append(['cmp', 'n', op, v])
    out += [['cmp', 'id', '>', 2], ['cmp', 'id', '<=', 4], ['cmp', 'id', '!=', 5]]
    out += [['cmp', 'n', '=', None], ['cmp', 's', '!=', None]]
    for f in ('n', 's'):
        out += [['isnull', f, False], ['isnull', f, True]]
    for neg in (False, True):
        for vs in (['abc', 'ABC'], ['actor', 'agent'], ["o'q"], ['abc', None], ['Abc', "O'Q", '', 'a?c']):
            out.append(['in', 's', neg, vs, False])
        for vs in ([1, 2], [2, None], [7731]):
            out.append(['in', 'n', neg, vs, False])
        for p in ('a%', 'A%', '%c', '_b_', "o'%", '%', 'a?c', '%?%', 'ACTOR', ''):
            out.append(['like', 's', neg, p])
        out.append(['like', 'n', neg, '7%'])
    for op in ('=', '!=', '<', '>='):
        out.append(['colcmp', 'n', op, 'id'])
    out += [['colcmp', 'id', '>', 'n'], ['colcmp', 's', '=', 's']]
    return out


def render_static(ast, rnd, tbl, plain=False, bare_or=False):
    """-> (text, flags).  plain: the canonical lower-case spelling with single spaces"""
    flags = set()
    kwstyle = 'lower' if plain else rnd.choice(['lower', 'lower', 'upper', 'cap'])

    def kw(w):
        flags.add('kw-' + kwstyle)
        if kwstyle == 'upper':
            return w.upper()
        if kwstyle == 'cap':
            return ' '.join(x.capitalize() for x in w.split(' '))
        return w

    def ident(f):
        v = 0 if plain else rnd.randrange(8)
        if v in (0, 1, 2):
            flags.add('ident-lower')
            return f
        if v == 3:
            flags.add('ident-not-lower')
            return f.upper()
        if v == 4:
            flags.add('ident-not-lower')
            return f.capitalize() if len(f) > 1 else f.upper()
        flags.add('ident-qualified')
        if v == 5:
            return tbl + '.' + f
        flags.add('ident-not-lower')
        return (tbl.upper() + '.' + f.upper()) if v == 6 else (tbl.capitalize() + '.' + f)

    def lit(v):
        if v is None:
            return kw('null')
        if isinstance(v, str):
            return "'" + v.replace("'", "''") + "'"
        return str(v)

    def sp():
        return ' ' if plain else rnd.choice([' ', ' ', ' ', '', '  '])

    def opsp(op):
        if plain:
            return op
        if op == '!=' and rnd.random() < .3:
            return '<>'
        if op == '=' and rnd.random() < .15:
            return '=='
        return op

    def r(c, top=False):
        k = c[0]
        if k == 'cmp':
            s_ = sp()
            if not plain and c[3] is not None and rnd.random() < .15:
                flags.add('literal-first')
                return lit(c[3]) + s_ + opsp(MIRROR[c[2]]) + s_ + ident(c[1])
            return ident(c[1]) + s_ + opsp(c[2]) + s_ + lit(c[3])
        if k == 'colcmp':
            s_ = sp()
            return ident(c[1]) + s_ + opsp(c[2]) + s_ + ident(c[3])
        if k == 'isnull':
            return ident(c[1]) + ' ' + kw('is not null' if c[2] else 'is null')
        if k == 'in':
            sep = ', ' if plain else rnd.choice([', ', ', ', ','])
            return ident(c[1]) + ' ' + kw('not in' if c[2] else 'in') + ' (' + sep.join(lit(v) for v in c[3]) + ')'
        if k == 'like':
            return ident(c[1]) + ' ' + kw('not like' if c[2] else 'like') + ' ' + lit(c[3])
        if k == 'not':
            return kw('not') + ' (' + r(c[1]) + ')'
        if k == 'and':
            return (' ' + kw('and') + ' ').join(('(' + r(x) + ')') if x[0] == 'or' else r(x) for x in c[1])
        if k == 'or':
            body = (' ' + kw('or') + ' ').join(('(' + r(x) + ')') if (x[0] == 'and' and (plain or rnd.random() < .5))
                                               else r(x) for x in c[1])
            if top and bare_or:
                flags.add('bare-or')
                return body
            return '(' + body + ')'
        raise AssertionError(c)

    text = r(ast, top=True)
    if not plain:
        x = rnd.random()
        if x < .08:
            text = ' ' + text + ' '
        elif x < .16 and not (ast[0] == 'or' and bare_or):
            text = '(' + text + ')'
    return text, sorted(flags)


def mk_static(ast, rnd, tbl_key, plain=False, bare_or=False):
    text, flags = render_static(ast, rnd, TABLES[tbl_key][0], plain=plain, bare_or=bare_or)
    return ['st', text, ast, flags]


def static_literals(c):
    """the text literals of a static tree that are compared exactly (=, !=, <, IN ...; not LIKE patterns)"""
    k = c[0]
    if k == 'cmp':
        return [c[3]] if isinstance(c[3], str) else []
    if k == 'in':
        return [v for v in c[3] if isinstance(v, str)]
    if k in ('and', 'or'):
        return [v for x in c[1] for v in static_literals(x)]
    if k == 'not':
        return static_literals(c[1])
    return []


def map_literals(c, fn):
    k = c[0]
    if k == 'cmp':
        return [k, c[1], c[2], fn(c[3]) if isinstance(c[3], str) else c[3]]
    if k == 'in':
        return [k, c[1], c[2], [fn(v) if isinstance(v, str) else v for v in c[3]], c[4]]
    if k in ('and', 'or'):
        return [k, [map_literals(x, fn) for x in c[1]]]
    if k == 'not':
        return [k, map_literals(c[1], fn)]
    return c


def has_kind(c, kind):
    if c[0] == kind:
        return True
    if c[0] in ('and', 'or'):
        return any(has_kind(x, kind) for x in c[1])
    if c[0] == 'not':
        return has_kind(c[1], kind)
    return False


def static_events(case):
    ev = set()
    rows = [dict(zip(COLS, r)) for r in table_of(case)[1]]
    tops = [f for f in case['filters'] if f is not None]
    n_conds = len(tops) + len(case['kwargs'])

    def group(f, anded):
        subs = f[1]
        if any(x[0] == 'st' for x in subs):
            ev.add('static-inside-or')
            if any(x[0] in ('c', 'c2') for x in subs) or f[2]:
                ev.add('static-inside-or-with-bound')
            if anded:
                ev.add('static-inside-or-anded')
        for x in subs:
            if x[0] == 'or':
                group(x, anded)

    for f in tops:
        if f[0] == 'st':
            if n_conds == 1:
                ev.add('static-alone')
            if any(g[0] != 'st' for g in tops) or case['kwargs']:
                ev.add('static-and-bound')
            if sum(1 for g in tops if g[0] == 'st') > 1:
                ev.add('static-and-static')
        elif f[0] == 'or':
            group(f, n_conds > 1)
    for st in (x for f in tops for x in static_filters(f)):
        ast = st[2]
        for fl in st[3]:
            ev.add('static-' + fl)
        lits = static_literals(ast)
        if any(v != v.upper() for v in lits):
            ev.add('static-literal-lower-case-letters')
        if any(v != v.lower() for v in lits):
            ev.add('static-literal-upper-case-letters')
        if any("'" in v for v in lits):
            ev.add('static-literal-with-quote')
        if any('?' in v for v in lits) or any('?' in c_ for c_ in [st[1]]):
            ev.add('static-text-with-question-mark')
        for kind in ('colcmp', 'and', 'or', 'not', 'in', 'like', 'isnull'):
            if has_kind(ast, kind):
                ev.add('static-' + {'colcmp': 'column-comparison'}.get(kind, kind))
        sel = [holds3(ast, r) is True for r in rows]
        if any(sel) and not all(sel):
            ev.add('static-selects-proper-subset')
        # the letter case of a literal decides the row set: the same condition with the literals upper-cased /
        # lower-cased selects other rows
        for fn, name in ((str.upper, 'static-differs-from-upper-cased'), (str.lower, 'static-differs-from-lower-cased')):
            if [holds3(map_literals(ast, fn), r) is True for r in rows] != sel:
                ev.add(name)
    return ev


STATIC_REACH = ['static', 'static-alone', 'static-and-bound', 'static-and-static', 'static-inside-or',
                'static-inside-or-with-bound', 'static-inside-or-anded',
                'static-literal-lower-case-letters', 'static-literal-upper-case-letters', 'static-literal-with-quote',
                'static-text-with-question-mark', 'static-ident-not-lower', 'static-ident-qualified', 'static-kw-lower',
                'static-kw-upper', 'static-kw-cap', 'static-literal-first', 'static-bare-or',
                'static-column-comparison', 'static-and', 'static-or', 'static-not', 'static-in', 'static-like',
                'static-isnull', 'static-selects-proper-subset',
                'static-differs-from-upper-cased', 'static-differs-from-lower-cased']


def g_static_ast(rnd, pool, depth=0):
    x = rnd.random()
    if depth < 2 and x < .25:
        kind = rnd.choice(['and', 'or', 'or', 'not'])
        if kind == 'not':
            return ['not', g_static_ast(rnd, pool, depth + 1)]
        return [kind, [g_static_ast(rnd, pool, depth + 1) for _ in range(rnd.choice([2, 2, 3]))]]
    return rnd.choice(pool)


def gen_static_cases(tier, seed):
    """static conditions: alone, AND-ed with bound conditions (before / after / keyword filters / ignored None),
    inside OR groups, in seeded trees; on the 6-row table and on the mixed-case table"""
    rnd = random.Random(seed * 15485863 + 1501)
    quick = tier == 'quick'
    pool = static_leaf_pool()
    leaves = list(all_leaves())
    # 1. every static leaf alone: canonical spelling and seeded styles, both tables
    for tk in (None, 'mix'):
        for ast in pool:
            yield mk_case([mk_static(ast, rnd, tk, plain=True)], order='id', table=tk)
            for _ in range(2 if quick else 6):
                yield mk_case([mk_static(ast, rnd, tk)], order='id', table=tk)
    # 2. composite static conditions alone (a top-level OR also without parentheses)
    for i in range(150 if quick else 1500):
        tk = (None, 'mix')[i % 2]
        kind = ('and', 'or', 'not', 'or')[i % 4]
        if kind == 'not':
            ast = ['not', g_static_ast(rnd, pool, 1)]
        else:
            ast = [kind, [g_static_ast(rnd, pool, 1) for _ in range(rnd.choice([2, 2, 3]))]]
        yield mk_case([mk_static(ast, rnd, tk, plain=(i % 5 == 0), bare_or=(i % 3 == 0))],
                      order=rnd.choice(ORDERS), default_order=rnd.choice([None, 'id']), table=tk,
                      api=rnd.choice(['list', 'all']))
    # 3. a static condition AND-ed with bound ones / inside OR groups: grid over a spread of both pools
    sp_static = pool[::(5 if quick else 2)]
    sp_bound = leaves[::(29 if quick else 7)]
    i = 0
    for ast in sp_static:
        for lf in sp_bound:
            i += 1
            tk = (None, 'mix')[i % 2]
            st = mk_static(ast, rnd, tk, plain=(i % 4 == 0))
            form = i % 8
            if form == 0:
                yield mk_case([st, lf], order='id', table=tk)
            elif form == 1:
                yield mk_case([lf, st], order='id DESC', table=tk)
            elif form == 2:
                yield mk_case([['or', [st, lf], {}]], order='id', table=tk)
            elif form == 3:
                yield mk_case([['or', [lf, st], {}], ['c', 'id', '<', 6]], order='id', table=tk)
            elif form == 4:
                yield mk_case([None, st, None], {'n': 2}, order='id', table=tk)
            elif form == 5:
                yield mk_case([['or', [st], {'s': 'abc', 'n': 0}]], order='id', table=tk)
            elif form == 6:
                yield mk_case([['or', [st], {}], lf], order='n, id', table=tk)
            else:
                yield mk_case([st, ['or', [lf, ['or', [mk_static(rnd.choice(pool), rnd, tk, bare_or=True)], {}]], {}]],
                              order='id', table=tk)
    # 4. two static conditions: AND-ed, OR-ed
    for i in range(60 if quick else 600):
        tk = (None, 'mix')[i % 2]
        a = mk_static(g_static_ast(rnd, pool), rnd, tk)
        b_ = mk_static(g_static_ast(rnd, pool), rnd, tk)
        if i % 3 == 0:
            yield mk_case([a, b_], order='id', table=tk)
        elif i % 3 == 1:
            a = mk_static(a[2], rnd, tk, bare_or=True)
            yield mk_case([['or', [a, b_], {}]], order='id', table=tk)
        else:
            yield mk_case([['or', [a], {}], b_], {'id': {'list': [1, 2, 3, 5]}}, order='s DESC, id', table=tk)
    # 5. seeded trees in which every leaf position may be a static condition (at least one is)
    for i in range(900 if quick else 20000):
        tk = (None, 'mix', 'mix')[i % 3]
        n_static = [0]

        def leaf(in_or):
            if rnd.random() < .45:
                n_static[0] += 1
                return mk_static(g_static_ast(rnd, pool), rnd, tk, bare_or=in_or and rnd.random() < .3)
            return g_leaf(rnd, leaves)

        def group(depth=1):
            subs = []
            for _ in range(rnd.choice([1, 2, 2, 3])):
                if depth < 2 and rnd.random() < .15:
                    subs.append(group(depth + 1))
                else:
                    subs.append(leaf(True))
            return ['or', subs, g_kwargs(rnd) if rnd.random() < .2 else {}]

        filters = []
        for _k in range(rnd.choice([1, 2, 2, 3])):
            x = rnd.random()
            if x < .1:
                filters.append(None)
            elif x < .45:
                filters.append(group())
            else:
                filters.append(leaf(False))
        if not n_static[0]:
            filters.insert(rnd.randrange(len(filters) + 1), mk_static(g_static_ast(rnd, pool), rnd, tk))
        kw = g_kwargs(rnd) if rnd.random() < .3 else {}
        yield mk_case(filters, kw, order=rnd.choice(ORDERS), default_order=rnd.choice([None, None, 'id', 'n DESC, id']),
                      api=rnd.choice(['list', 'list', 'all']), scalars=rnd.random() < .15, table=tk)


def gen_cases(tier, seed):
    yield from gen_small_cases(tier, seed)
    yield from gen_big_cases(tier, seed)
    yield from gen_static_cases(tier, seed)


def gen_small_cases(tier, seed):
    rnd = random.Random(seed * 104729 + 15)
    leaves = list(all_leaves())
    # 1. every single condition, alone
    for lf in leaves:
        yield mk_case([lf], order='id')
    # 2. no filter at all / only ignored arguments / every order
    for o in ORDERS:
        yield mk_case([], order=o)
        yield mk_case([None, None], default_order=o)
        yield mk_case([None, ['c', 'n', '>=', 0]], order=o, default_order='id DESC')
    # 3. OR groups: empty, singleton, every pair from a spread of leaves
    yield mk_case([['or', [], {}]], order='id')
    yield mk_case([['or', [], {}], ['c', 'n', '=', 2]], order='id')
    yield mk_case([['or', [['or', [], {}], ['c', 'n', '=', 2]], {}]], order='id')
    spread = leaves[::7] if tier == 'quick' else leaves[::3]
    for i, a in enumerate(spread):
        yield mk_case([['or', [a], {}]], order='id')
        for b_ in spread[i + 1::(5 if tier == 'quick' else 2)]:
            yield mk_case([['or', [a, b_], {}]], order='id')
            yield mk_case([a, b_], order='id DESC')
    # 4. kwargs filters
    for field in ('n', 's', 'id'):
        for v in values_for(field):
            yield mk_case([], {field: v}, order='id')
    yield mk_case([], {'n': {'list': [1, 2]}, 's': None}, order='id')
    yield mk_case([], {'n': {'tuple': []}}, order='id')
    yield mk_case([['or', [], {'n': 1, 's': "o'q"}]], order='id')
    # 5. seeded trees
    n_rand = 1200 if tier == 'quick' else 25000
    for _ in range(n_rand):
        filters = []
        for _k in range(rnd.choice([1, 1, 2, 2, 3])):
            x = rnd.random()
            if x < .12:
                filters.append(None)
            elif x < .5:
                filters.append(g_or(rnd, leaves))
            else:
                filters.append(g_leaf(rnd, leaves))
        kw = g_kwargs(rnd) if rnd.random() < .3 else {}
        yield mk_case(filters, kw, order=rnd.choice(ORDERS), default_order=rnd.choice([None, None, 'id', 'n DESC, id']),
                      api=rnd.choice(['list', 'list', 'all']), scalars=rnd.random() < .15)


NULL_SENSITIVE = {'in', 'cmp', 'cmp-null', 'like', 'isnull', 'static'}


def run(b):
    for case in gen_cases(b.tier, b.seed):
        try:
            conj = whole_intent(case)
            kinds = {k for c in conj for k in leaf_kinds(c)}
            for k in kinds:
                b.hit(k)
            if any(f is None for f in case['filters']):
                b.hit('ignored-None-argument')
            if case['kwargs']:
                b.hit('kwargs-filter')
            for ev in long_events(conj) - kinds:
                b.hit(ev)
            if 'static' in kinds:
                for ev in static_events(case):
                    b.hit(ev)
            b.case(case, nontrivial=bool(kinds & NULL_SENSITIVE),
                   sample=(b.evaluations % 499 == 0 and not case.get('table')))
            res = evaluate(case)
        except Exception as e:      # noqa - bug of this harness
            b.error(f"harness exception {type(e).__name__}: {e} on {case}")
            continue
        for clause, ksuf, text in res:
            if clause == SUPPORTING:
                b.diag(f"C15.{ksuf}: {text}")
                continue
            b.fail(f"C15.{clause}", f"C15.{clause}:{ksuf}", text, case)
    b.require_reach(STATIC_REACH)
    b.require_reach(['empty-in', 'or', 'or-empty', 'like', 'isnull', 'in', 'cmp', 'cmp-null',
                     'ignored-None-argument', 'kwargs-filter'] + sorted(LONG_EVENTS))


def replay_case(case):
    res = evaluate(case)
    return (not [r for r in res if r[0] != SUPPORTING]), [f"{c} [{k}]: {t}" for c, k, t in res]
