"""C14: execution of one registration history on the real ak.color code + observation.

A history `h` (JSON-able):
  {'config':  [[id, descr], ...],            items of the explicit configuration, in dict order
   'config_form': 'flat' | 'nested',
   'steps':   [{'how': 'add'|'component'|'register'|'mk_palette'|'parents',
                'form': 'flat'|'nested',      (ignored by 'add': add_new_items takes a flat dict)
                'batches': [[[id, descr], ...], ...]},   one batch, several only for 'parents'
               ...],
   'universe': [ids observed],
   'no_color': bool, 'global': bool,
   'drop_builtins': [built-in ids removed through a ColorsConfig subclass]   (control runs only)}
"""
import signal

import ak.color as akc
from ak.color import ColorsConfig, Palette, ConfColor, PaletteUser, ColorFmt

from . import c14_spec as S

GP_ATTRS = ('text', 'name', 'keyword', 'ok', 'warn', 'error')
BUDGET_S = 10


class Budget(BaseException):
    pass


def _alarm(signum, frame):
    raise Budget()


class guard:
    """wall-clock budget for code under test (main thread only; otherwise no guard)"""
    def __enter__(self):
        self.ok = False
        try:
            self.old = signal.signal(signal.SIGALRM, _alarm)
            signal.setitimer(signal.ITIMER_REAL, BUDGET_S)
            self.ok = True
        except (ValueError, OSError, AttributeError):
            pass
        return self

    def __exit__(self, *a):
        if self.ok:
            signal.setitimer(signal.ITIMER_REAL, 0)
            signal.signal(signal.SIGALRM, self.old)
        return False


def builtins_flat(drop=()):
    try:
        d = S.flatten(dict(ColorsConfig.BUILT_IN_CONFIG))
    except Exception:      # noqa
        d = {}
    return {k: v for k, v in d.items() if k not in drop}


def obs(fmt):
    """formatter -> [prefix, suffix] as seen through the public call"""
    try:
        s = str(fmt('@'))
    except Budget:
        raise
    except BaseException as e:      # noqa
        return ['!exc', type(e).__name__]
    i = s.find('@')
    if i < 0:
        return ['!text-lost', s]
    return [s[:i], s[i + 1:]]


_UPAL = {}
_CFG_SUB = {}


def upal_class(ids):
    key = tuple(ids)
    k = _UPAL.get(key)
    if k is None:
        k = type('C14UniversePalette', (Palette,), {f'a{i}': ConfColor(sid) for i, sid in enumerate(key)})
        _UPAL[key] = k
    return k


def cfg_class(drop):
    if not drop:
        return ColorsConfig
    key = tuple(sorted(drop))
    k = _CFG_SUB.get(key)
    if k is None:
        # documented way to change the built-in defaults (tests/test_color.py TstColorsConfig)
        nested = {kk: vv for kk, vv in ColorsConfig.BUILT_IN_CONFIG.items() if kk not in key}
        k = type('C14ColorsConfig', (ColorsConfig,), {'BUILT_IN_CONFIG': nested})
        _CFG_SUB[key] = k
    return k


def as_dict(pairs, form):
    pairs = [(p[0], p[1]) for p in pairs]
    return S.nest(pairs) if form == 'nested' else dict(pairs)


def final_maps(h):
    """the description map after the constructor and after every step: first registration wins,
    configuration first, then the built-in defaults, then the batches in order.
    -> [M_0, M_1, ...] (harness-side bookkeeping, independent of the code under test)"""
    M = {}
    for sid, d in h['config']:
        M.setdefault(sid, d)
    for sid, d in builtins_flat(h.get('drop_builtins') or ()).items():
        M.setdefault(sid, d)
    maps = [dict(M)]
    for st in h['steps']:
        for batch in st['batches']:
            for sid, d in batch:
                M.setdefault(sid, d)
        maps.append(dict(M))
    return maps


def observe(cfg, universe, glob, palettes=True):
    memo = {}

    def ob(fmt):        # one call per distinct formatter object (all are kept alive by memo)
        r = memo.get(id(fmt))
        if r is None:
            r = (fmt, obs(fmt))
            memo[id(fmt)] = r
        return r[1]

    o = {sid: ob(cfg.get_color(sid)) for sid in universe}
    pal = {}
    if palettes:
        UP = upal_class(universe)
        gp = cfg.get_palette()
        up = UP(cfg)
        for i, sid in enumerate(universe):
            pal['gp|' + sid] = ob(gp[sid])
            pal['up|' + sid] = ob(getattr(up, f'a{i}'))
        for a in GP_ATTRS:
            pal['gp.' + a] = ob(getattr(gp, a))
        pal['up.text'] = ob(up.text)
        if glob:
            ggp = akc.global_palette
            sup = UP(synced=True)
            for i, sid in enumerate(universe):
                pal['G:gp|' + sid] = ob(ggp[sid])
                pal['G:up|' + sid] = ob(getattr(sup, f'a{i}'))
            for a in GP_ATTRS:
                pal['G:gp.' + a] = ob(getattr(ggp, a))
            pal['G:up.text'] = ob(sup.text)
    return o, pal


def _apply(cfg, st, glob):
    how = st['how']
    form = st.get('form', 'flat')
    batches = st['batches']
    if how == 'add':
        for b in batches:
            cfg.add_new_items(dict((p[0], p[1]) for p in b), 'c14 registration')
        return
    prev = None
    for b in batches:
        ns = {'SYNTAX_DEFAULTS': as_dict(b, form)}
        if prev is not None:
            ns['PARENT_PALETTES'] = [prev]
        prev = type('C14Component', (Palette,), ns)
    if how == 'register':
        prev.register_in_colors_conf(cfg)
    elif how == 'mk_palette':
        user = type('C14User', (PaletteUser,), {'PALETTE_CLASS': prev})
        user._mk_palette(None, False, None if glob else cfg)
    else:   # 'component', 'parents': a palette of the component is created
        if glob:
            prev()
        else:
            prev(cfg)


def run_history(h, palettes=True):
    """-> list of records, one per state (after the constructor, after every step):
       {'obs': {id: [prefix, suffix]}, 'pal': {...}}   or, terminal,  {'raise': [where, type, message]}"""
    universe = list(h['universe'])
    glob = bool(h.get('global'))
    out = []
    where = 'constructor'
    try:
        with guard():
            try:
                K = cfg_class(h.get('drop_builtins') or ())
                cfg = K(as_dict(h['config'], h.get('config_form', 'flat')), no_color=bool(h.get('no_color')))
                if glob:
                    akc.set_global_colors_config(cfg)
                where = 'observation after constructor'
                o, pal = observe(cfg, universe, glob, palettes)
                out.append({'obs': o, 'pal': pal})
                for k, st in enumerate(h['steps']):
                    where = f"registration step {k + 1} ({st['how']})"
                    _apply(cfg, st, glob)
                    where = f"observation after step {k + 1}"
                    o, pal = observe(cfg, universe, glob, palettes)
                    out.append({'obs': o, 'pal': pal})
            except Budget:
                out.append({'raise': [where, 'BudgetOverrun', f'no result within {BUDGET_S} s']})
            except KeyboardInterrupt:
                raise
            except BaseException as e:      # noqa  code under test may raise anything
                out.append({'raise': [where, type(e).__name__, str(e)[:200]]})
    finally:
        if glob:
            try:
                akc.set_global_colors_config(None)
            except BaseException:      # noqa
                pass
    return out


def expected_obs(M, sid, no_color=False):
    """[prefix, suffix] demanded for a *registered* id by the property (None for ids not in M)"""
    if sid not in M:
        return None
    r = None if no_color else S.spec_resolve(M, sid)
    if r is None:
        return ['', '']
    fg, bg, mods = r
    return obs(ColorFmt(fg, bg_color=bg, **mods))
