"""C01 / C04 - proved sub-obligations on the parser's building blocks (ak/llparser.py):
the stack element that carries the roll-back state, and the span rule of tree nodes.
The parse loop itself is decided by the bounded drivers (harness/c01.py, harness/c04.py)."""
from pyvc.contract import Contract, T
from ak import llparser

PROP = 'C01'
M = 'ak.llparser'
ME = __name__
G = globals()


def same_objects(xs, ys):
    return len(xs) == len(ys) and all(a is b for a, b in zip(xs, ys))


def POS(name='pos'):
    return T.obj('ak.llparser:SrcPos', src_name=T.str, coords=T.tuple(T.nat, T.nat))


def LEAF():
    return T.obj('ak.llparser:TElement', name=T.str, value=T.one_of(T.str, T.none), _is_leaf=T.const(True),
                 start_pos=POS(), end_pos=POS())


def RULE(n):
    return T.obj('ak.llparser:ProdRule', production=T.tuple(*[T.str for _ in range(n)]))


def STACK(nvals, rules):
    return T.obj('ak.llparser:_StackElement', symbol=T.str, start_token_pos=T.nat, cur_token_pos=T.nat,
                 prod_rs=T.list(*rules), cur_prod_id=T.nat, values=T.list(*[LEAF() for _ in range(nvals)]),
                 log_offset=T.const(0))


STACKS = T.one_of(STACK(0, [RULE(2)]), STACK(1, [RULE(2), RULE(0)]), STACK(2, [RULE(3), RULE(1)]))

CONTRACTS = [
    Contract(M, '_StackElement.next_matched', prop=PROP, spec_globals=G, level='sup',
             params={'self': STACKS, 'value': LEAF(), 'new_token_pos': T.nat},
             ensures={
                 'child_collected': "same_objects(self.values, old(self.values) + [value])",
                 'cursor': "self.cur_token_pos == new_token_pos",
                 'rest_kept': "self.start_token_pos == old(self.start_token_pos) and self.cur_prod_id == old(self.cur_prod_id) "
                              "and self.symbol == old(self.symbol) and self.prod_rs is old(self.prod_rs)",
             },
             raises={}, modifies=['self.values', 'self.cur_token_pos']),
    Contract(M, '_StackElement.switch_to_next_prod', prop=PROP, spec_globals=G, level='sup',
             params={'self': STACKS},
             ensures={
                 'children_dropped': "len(self.values) == 0",
                 'cursor_rewound': "self.cur_token_pos == self.start_token_pos and self.start_token_pos == old(self.start_token_pos)",
                 'next_alternative': "self.cur_prod_id == old(self.cur_prod_id) + 1",
                 'rest_kept': "self.symbol == old(self.symbol) and self.prod_rs is old(self.prod_rs)",
                 'old_children_list_not_reused': "self.values is not old(self.values)",
             },
             raises={}, modifies=['self.values', 'self.cur_token_pos', 'self.cur_prod_id']),
    Contract(M, '_StackElement.clone', prop=PROP, spec_globals=G, level='sup',
             params={'self': STACKS},
             ensures={
                 'fieldwise_copy': "result.symbol == self.symbol and result.start_token_pos == self.start_token_pos and "
                                   "result.cur_token_pos == self.cur_token_pos and result.cur_prod_id == self.cur_prod_id "
                                   "and result.prod_rs is self.prod_rs",
                 'own_children_list': "result.values is not self.values and same_objects(result.values, self.values)",
                 'fresh': "result is not self",
             },
             raises={}, modifies=[]),
    Contract(M, '_StackElement.get_cur_symbol', prop=PROP, spec_globals=G, level='sup',
             params={'self': STACKS},
             requires=["self.cur_prod_id < len(self.prod_rs)",
                       "len(self.values) < len(self.prod_rs[self.cur_prod_id].production)"],
             ensures={'next_unmatched': "result == self.prod_rs[self.cur_prod_id].production[len(self.values)]"},
             raises={}, modifies=[]),
]


BOUNDED_SYMBOLIC = {}
USES = {}
ASSUMED_LIBRARY = []
CANARIES = [
    {'name': 'rollback_keeps_children', 'module': M, 'function': '_StackElement.switch_to_next_prod',
     'old': 'self.values = []', 'new': 'self.values = self.values[:1]',
     'expect': 'C01._StackElement.switch_to_next_prod.children_dropped'},
    {'name': 'clone_shares_children', 'module': M, 'function': '_StackElement.clone',
     'old': 'clone.values = self.values[:]', 'new': 'clone.values = self.values',
     'expect': 'C01._StackElement.clone.own_children_list'},
]
