"""C08 - coloured text behaves exactly like the underlying string.
Bounded-symbolic contracts on CHText (ak/color.py): chunk lists of concrete length 0..3 whose texts,
colour prefixes, indexes and slice bounds are fully symbolic (any strings, any ints).  Labelled bounded:
the property is decided by the model-based driver harness/c08.py; these obligations cover, for at most three
chunks, ALL texts and ALL bounds at once."""
from pyvc.contract import Contract, T
from pyvc.speclib import implies, iff, fullmatch
from ak import color as akc

PROP = 'C08'
M = 'ak.color'
G = globals()


def plain(chunks):
    out = ""
    for c in chunks:
        out = out + c.text
    return out


def total(chunks):
    n = 0
    for c in chunks:
        n = n + len(c.text)
    return n


def offset(chunks, i):
    n = 0
    for c in chunks[:i]:
        n = n + len(c.text)
    return n


def wf(t):
    """representation invariant: no empty chunk, neighbours differ in colour, cached length is right"""
    return (all(len(c.text) > 0 for c in t.chunks)
            and all(a.c_prefix != b.c_prefix for a, b in zip(t.chunks[:-1], t.chunks[1:]))
            and t.scrlen == total(t.chunks))


def color_at(chunks, pos):
    """colour prefix of the visible character at position pos (0 <= pos < total)"""
    off = 0
    for c in chunks:
        if pos < off + len(c.text):
            return c.c_prefix
        off = off + len(c.text)
    return None


def same_colors(result_chunks, src_chunks, start):
    """every visible character of the result has the colour of the source character it came from:
    checked at the first and last character of every result chunk (chunks are mono-coloured and the
    source colour is piecewise constant, wf makes the two ends decide)"""
    off = 0
    ok = True
    for c in result_chunks:
        n = len(c.text)
        ok = ok and n > 0 and color_at(src_chunks, start + off) == c.c_prefix \
            and color_at(src_chunks, start + off + n - 1) == c.c_prefix
        off = off + n
    return ok


def norm_lo(b, n):
    if b is None:
        return 0
    if b < 0:
        return max(0, n + b)
    return min(b, n)


def norm_hi(b, n):
    if b is None:
        return n
    if b < 0:
        return max(0, n + b)
    return min(b, n)


def runs(chunks):
    return [(c.c_prefix, c.text) for c in chunks]


def norm_runs(rs):
    """canonical form of a sequence of coloured runs: empty runs dropped, equal-coloured neighbours merged"""
    out = []
    for r in rs:
        if len(r[1]) == 0:
            continue
        if out and out[-1][0] == r[0]:
            out[-1] = (r[0], out[-1][1] + r[1])
        else:
            out.append(r)
    return out


def view_of(x):
    """coloured runs denoted by an operand of + / += / the constructor"""
    if isinstance(x, akc._CHTextChunk):
        return [(x.c_prefix, x.text)]
    if isinstance(x, akc.CHText):
        return runs(x.chunks)
    if isinstance(x, (list, tuple)):
        out = []
        for y in x:
            out = out + view_of(y)
        return out
    return [("", str(x))]


def wfc(c):
    """chunks made by ColorFmt: the suffix is determined by the prefix (C09 `shape`)"""
    return (c.c_prefix == "" and c.c_suffix == "") or (c.c_prefix != "" and c.c_suffix == "\x1b[0m")


def all_wfc(chunks):
    return all(wfc(c) for c in chunks)


def CHUNK():
    return T.obj('ak.color:_CHTextChunk', c_prefix=T.str, text=T.str, c_suffix=T.str)


def TEXT(n):
    return T.obj('ak.color:CHText', scrlen=T.int, chunks=T.list(*[CHUNK() for _ in range(n)]))


def _slice_spec(has_start, has_stop):
    def mk(I, name):
        return slice(T.int.make(I, name + '.start') if has_start else None,
                     T.int.make(I, name + '.stop') if has_stop else None, None)
    sp = T.custom(f"slice({'int' if has_start else 'None'}:{'int' if has_stop else 'None'})", mk)
    sp.sampler = lambda rng, ctx: _NativeSlice(rng.randint(-9, 9) if has_start else None, rng.randint(-9, 9) if has_stop else None)
    return sp


class _NativeSlice(dict):
    """JSON form of a slice for the native sampler (pyvc.runtime.from_json recipe '__slice__')"""

    def __init__(self, a, b):
        super().__init__({'__class__': '__slice__', 'fields': {'start': a, 'stop': b}})


import os as _os
_MAXN = 4 if _os.environ.get('VERIF_TIER') == 'thorough' else 3      # chunk lists of length 0..3 (thorough) / 0..2 (quick)
TEXTS = T.one_of(*[TEXT(n) for n in range(_MAXN)])
BOUND = T.one_of(T.none, T.int)

# ---- unbounded tier: chunk lists of ANY length (symbolic n); loops carry inductive invariants; the spec folds
# offset/total are prefix sums with proved monotonicity lemma (pyvc/folds.py)
from pyvc.speclib import solver_modules as _solver_modules
_z3, _folds, _parse, _Env = _solver_modules()
_OFFSET = _folds.PrefixSum('offset', lambda V, zi: _z3.Length(V.field('text', zi)))
_PLAIN = _folds.PrefixConcat('plain', lambda V, zi: V.field('text', zi), _OFFSET)
FOLD_MODELS = {'offset': _folds.prefix_model(_OFFSET), 'total': _folds.whole_model(_OFFSET),
               'plain': _folds.whole_model(_PLAIN), 'color_at': _folds.locate_model(_OFFSET, 'c_prefix')}


def _chunk_pos_result(I, name):
    """(chunk id, position in chunk) or (None, None)"""
    from pyvc.values import SInt
    if I.branch(I.st.fresh_bool(name + '.found')):
        return (SInt(I.st.fresh_int(name + '.chunk_id')), SInt(I.st.fresh_int(name + '.chunk_pos')))
    return (None, None)


_RENDERED = _folds.PrefixConcat(
    'rendered', lambda V, zi: _z3.Concat(V.field('c_prefix', zi), V.field('text', zi), V.field('c_suffix', zi)),
    _folds.PrefixSum('rendered_len', lambda V, zi: _z3.Length(_z3.Concat(V.field('c_prefix', zi), V.field('text', zi),
                                                                         V.field('c_suffix', zi)))))
FOLD_MODELS['rendered'] = _folds.whole_model(_RENDERED)
FOLD_MODELS['chunk_index'] = _folds.locate_model(_OFFSET, None)
FOLD_MODELS['plain_upto'] = _folds.prefix_model(_PLAIN)


def plain_upto(chunks, i):
    return plain(chunks[:i])


def rendered(chunks):
    """what printing the text sends to the terminal"""
    out = ""
    for c in chunks:
        out = out + c.c_prefix + c.text + c.c_suffix
    return out


def wf_any(t):
    """wf, written so that it can be evaluated for a chunk list of any (symbolic) length"""
    n = len(t.chunks)
    return (all(len(c.text) > 0 for c in t.chunks)
            and all(t.chunks[i].c_prefix != t.chunks[i + 1].c_prefix for i in range(n - 1))
            and t.scrlen == total(t.chunks))


def text_of(x):
    """plain text denoted by an operand of + / += / the constructor (str, chunk or text)"""
    if isinstance(x, akc._CHTextChunk):
        return x.text
    if isinstance(x, akc.CHText):
        return plain(x.chunks)
    if isinstance(x, (list, tuple)):
        return text_of_parts(x)
    return str(x)


def len_of(x):
    if isinstance(x, akc._CHTextChunk):
        return len(x.text)
    if isinstance(x, akc.CHText):
        return total(x.chunks)
    if isinstance(x, (list, tuple)):
        n = 0
        for y in x:
            n = n + len_of(y)
        return n
    return len(str(x))


def color_of(x, pos):
    """colour prefix of character pos (0 <= pos < len_of(x)) of an operand"""
    if isinstance(x, akc._CHTextChunk):
        return x.c_prefix
    if isinstance(x, akc.CHText):
        return color_at(x.chunks, pos)
    if isinstance(x, (list, tuple)):
        return color_in_parts(x, pos)
    return ""


def text_of_parts(parts):
    out = ""
    for x in parts:
        out = out + text_of(x)
    return out


def color_in_parts(parts, pos):
    """colour of character pos of the concatenation of the parts"""
    off = 0
    for x in parts:
        n = len_of(x)
        if pos < off + n:
            return color_of(x, pos - off)
        off = off + n
    return None


def interleave(sep, items):
    out = []
    for k, x in enumerate(items):
        if k:
            out.append(sep)
        out.append(x)
    return out


def wf_chunks_any(chunks):
    """no empty chunk, neighbours differ in colour (chunk list of any length)"""
    n = len(chunks)
    return (all(len(c.text) > 0 for c in chunks)
            and all(chunks[i].c_prefix != chunks[i + 1].c_prefix for i in range(n - 1)))


TEXT_MODELS = {k: FOLD_MODELS[k] for k in ('offset', 'total', 'plain', 'plain_upto')}
COLOR_MODELS = dict(TEXT_MODELS, color_at=FOLD_MODELS['color_at'], chunk_index=FOLD_MODELS['chunk_index'])




def pad_like_str(shown, n, fill, align, width):
    """what format(s, spec) does with a str s of n visible characters, applied to the text `shown`:
    spec = [[fill]align][width][s]; default alignment of str is '<', default fill ' '"""
    w = 0 if width == '' else width
    f = ' ' if fill == '' else fill
    pad = max(w - n, 0)
    if align == '>':
        return f * pad + shown
    if align == '^':
        return f * (pad // 2) + shown + f * (pad - pad // 2)
    return shown + f * pad


def chunk_index(chunks, pos):
    """index of the chunk holding the visible character at position pos (0 <= pos < total), else None"""
    off = 0
    for k, c in enumerate(chunks):
        if pos < off + len(c.text):
            return k
        off = off + len(c.text)
    return None


def same_picture(a, b):
    """two chunk lists show the same characters in the same colours"""
    return (plain(a) == plain(b) and total(a) == total(b)
            and all(color_at(a, q) == color_at(b, q) for q in range(total(a))))


def lemma_canonical(a, b):
    """LEMMA (canonical form).  Two well-formed chunk lists that show the same characters in the same colours are the
    same list, chunk by chunk.  The body is the proof: a ghost walk over `a` whose loop invariant is
    `offset(a, k) == offset(b, k)`; every `assert` is an obligation (an AssertionError must be impossible) and, once
    proved, a fact for the rest of the path - the hints instantiate the colour hypothesis at the chunk boundaries."""
    for k, ca in enumerate(a):
        o = offset(a, k)
        assert k < len(b)
        cb = b[k]
        assert color_at(a, o) == ca.c_prefix and color_at(b, o) == cb.c_prefix
        assert ca.c_prefix == cb.c_prefix
        la = len(ca.text)
        lb = len(cb.text)
        if la < lb:
            # the character after chunk k of `a` belongs to chunk k+1 of `a` (another colour) but still to chunk k of `b`
            assert k + 1 < len(a)
            assert color_at(a, o + la) == a[k + 1].c_prefix and color_at(b, o + la) == cb.c_prefix
            assert False
        if lb < la:
            assert k + 1 < len(b)
            assert color_at(b, o + lb) == b[k + 1].c_prefix and color_at(a, o + lb) == ca.c_prefix
            assert False
        assert plain_upto(a, k + 1) == plain_upto(b, k + 1)
        assert ca.text == cb.text
    if len(a) < len(b):
        extra = b[len(a)]           # a further chunk of `b` would add characters that `a` does not have
        assert len(extra.text) > 0
        assert False
    return len(a) == len(b)


def same_fields(x, y):
    return x.c_prefix == y.c_prefix and x.text == y.text and x.c_suffix == y.c_suffix


def _chunk_eq_result(bound):
    """result of chunk == chunk at a call site: the formula itself (no fresh symbol), so that it can stand inside a
    quantified body"""
    from pyvc.verify import parse_expr, eval_clause
    from pyvc.interp import Env
    from pyvc.values import SBool

    def mk(I, name):
        t = eval_clause(I, "same_fields(self, other)", Env(dict(bound), pyglobals=G))
        return t if isinstance(t, bool) else SBool(t)
    return T.custom('the field-wise comparison', mk)


def lemma_pointwise(a, b, q):
    """LEMMA.  Chunk lists that agree chunk by chunk (colour and text) have the same plain text and the same colour at
    every position q.  Ghost walk with invariant `offsets and plain prefixes agree`."""
    for k, ca in enumerate(a):
        cb = b[k]
        assert ca.text == cb.text
    if 0 <= q < total(a):
        ka = chunk_index(a, q)
        assert offset(b, ka) <= q < offset(b, ka + 1)       # the same chunk of `b` holds position q
        assert color_at(a, q) == color_at(b, q)
    return plain(a) == plain(b) and total(a) == total(b)


_FORMAT_WIDTHS = (tuple(range(0, 13)) + (25, 40, 100)) if _os.environ.get('VERIF_TIER') == 'thorough' else (0, 1, 2, 7, 10, 25)
_FORMAT_SPEC = T.derived('fill + align + str(width) + kind',
                         lambda I, a: I.eval(_parse('fill + align + str(width) + kind'), _Env(dict(a), pyglobals={'str': str})))
_FORMAT_SPEC.native = lambda a: a['fill'] + a['align'] + str(a['width']) + a['kind']


def ANYCHUNKS():
    return T.symobjlist('ak.color:_CHTextChunk', c_prefix=T.str, text=T.str, c_suffix=T.str)


def ANYTEXT():
    return T.obj('ak.color:CHText', scrlen=T.int, chunks=ANYCHUNKS())


HAVOC_TEXT = {'self.chunks': ANYCHUNKS(), 'self.scrlen': T.int}


def _RET_SELF(bound):
    return T.custom('self', lambda I, name: bound['self'])

_APPENDED = {
    'wf': "wf_any(self)",
    'text': "plain(self.chunks) == plain(old(self.chunks)) + {text}",
    'len': "self.scrlen == old(self.scrlen) + len({text})",
    'colors': "not (0 <= p < self.scrlen) or color_at(self.chunks, p) == "
              "(color_at(old(self.chunks), p) if p < old(self.scrlen) else {prefix})",
}


def appended(text, prefix, **more):
    d = {k: v.format(text=text, prefix=prefix) for k, v in _APPENDED.items()}
    d.update(more)
    return d


UNBOUNDED_CONTRACTS = [
    Contract(M, 'CHText._get_chunk_pos', name='CHText._get_chunk_pos/any_length', prop=PROP, spec_globals=G, level='sup',
             params={'self': T.one_of(ANYTEXT()), 'position': T.int},
             requires=["self.scrlen == total(self.chunks)"],
             ensures={
                 'in_range': "(result[0] is not None) == (0 <= position < self.scrlen)",
                 'chunk_exists': "result[0] is None or 0 <= result[0] < len(self.chunks)",
                 'decomposition': "result[0] is None or (offset(self.chunks, result[0]) + result[1] == position "
                                  "and 0 <= result[1] < len(self.chunks[result[0]].text))",
                 'none_pair': "result[0] is not None or result[1] is None",
             },
             result_spec=T.custom('(int, int) | (None, None)', _chunk_pos_result), eager_ensures=True,
             invariants={0: {'inv': "position == old(position) - offset(self.chunks, __i) and position >= 0"}},
             symlist_models=TEXT_MODELS,
             raises={}, modifies=[]),
    Contract(M, 'CHText.plain_text', name='CHText.plain_text/any_length', prop=PROP, spec_globals=G, level='top',
             params={'self': T.one_of(ANYTEXT())}, requires=[],
             ensures={'text': "result == plain(self.chunks)"},
             symlist_models=TEXT_MODELS, raises={}, modifies=[]),
    Contract(M, 'CHText.__str__', name='CHText.__str__/any_length', prop=PROP, spec_globals=G, level='top',
             params={'self': T.one_of(ANYTEXT())}, requires=[],
             ensures={'rendering': "result == rendered(self.chunks)"},
             symlist_models=FOLD_MODELS, raises={}, modifies=[]),
    Contract(M, 'CHText.__len__', name='CHText.__len__/any_length', prop=PROP, spec_globals=G, level='top',
             params={'self': T.one_of(ANYTEXT())}, requires=["wf_any(self)"],
             ensures={'len': "result == len(plain(self.chunks))"}, result_spec=T.int, eager_ensures=True,
             symlist_models=TEXT_MODELS, raises={}, modifies=[]),
    Contract(M, 'CHText._append_chunk', name='CHText._append_chunk/any_length', prop=PROP, spec_globals=G, level='top',
             params={'self': T.one_of(ANYTEXT()), 'chunk': CHUNK(), 'p': T.int},      # p: ghost - an arbitrary position
             requires=["wf_any(self)"],
             ensures=appended('chunk.text', 'chunk.c_prefix'),
             result_spec=T.none, havoc=HAVOC_TEXT,
             symlist_models=COLOR_MODELS, raises={}, modifies=['self.chunks', 'self.scrlen']),
    Contract(M, 'CHText.__iadd__', name='CHText.__iadd__/chunk/any_length', prop=PROP, spec_globals=G, level='top',
             havoc=HAVOC_TEXT, result_spec=_RET_SELF,
             params={'self': T.one_of(ANYTEXT()), 'other': CHUNK(), 'p': T.int},
             requires=["wf_any(self)"],
             ensures=appended('other.text', 'other.c_prefix', returns_self="result is self"),
             symlist_models=COLOR_MODELS, raises={}, modifies=['self.chunks', 'self.scrlen']),
    Contract(M, 'CHText.__iadd__', name='CHText.__iadd__/str/any_length', prop=PROP, spec_globals=G, level='top',
             havoc=HAVOC_TEXT, result_spec=_RET_SELF,
             params={'self': T.one_of(ANYTEXT()), 'other': T.str, 'p': T.int},
             requires=["wf_any(self)"],
             ensures=appended('other', '""', returns_self="result is self"),
             symlist_models=COLOR_MODELS, raises={}, modifies=['self.chunks', 'self.scrlen']),
    Contract(M, 'CHText.__iadd__', name='CHText.__iadd__/text/any_length', prop=PROP, spec_globals=G, level='top',
             havoc=HAVOC_TEXT, result_spec=_RET_SELF,
             params={'self': T.one_of(ANYTEXT()), 'other': T.one_of(ANYTEXT()), 'p': T.int},
             requires=["wf_any(self)"],
             ensures={
                 'wf': "wf_any(self)",
                 'text': "plain(self.chunks) == plain(old(self.chunks)) + plain(other.chunks)",
                 'len': "self.scrlen == old(self.scrlen) + total(other.chunks)",
                 'colors': "not (0 <= p < self.scrlen) or color_at(self.chunks, p) == "
                           "(color_at(old(self.chunks), p) if p < old(self.scrlen) else "
                           "color_at(other.chunks, p - old(self.scrlen)))",
                 'returns_self': "result is self",
             },
             invariants={1: {'inv': "wf_any(self) and plain(self.chunks) == plain(old(self.chunks)) + plain_upto(other.chunks, __i)"
                                    " and self.scrlen == old(self.scrlen) + offset(other.chunks, __i)"
                                    " and (not (0 <= p < self.scrlen) or color_at(self.chunks, p) == "
                                    "(color_at(old(self.chunks), p) if p < old(self.scrlen) else "
                                    "color_at(other.chunks, p - old(self.scrlen))))",
                             'modifies': HAVOC_TEXT}},
             symlist_models=COLOR_MODELS, raises={}, modifies=['self.chunks', 'self.scrlen']),
    Contract(M, 'CHText.__init__', name='CHText.__init__/any_length', prop=PROP, spec_globals=G, level='top',
             params={'self': T.obj('ak.color:CHText'),
                     'parts': T.one_of(T.tuple(), T.tuple(ANYTEXT()), T.tuple(T.str, ANYTEXT()), T.tuple(ANYTEXT(), CHUNK()),
                                       T.tuple(ANYTEXT(), ANYTEXT()), T.tuple(CHUNK(), T.str, ANYTEXT()),
                                       # the shapes the chunk operations use (chunk + x, x + chunk, chunk.fixed_len, chunk.join)
                                       T.tuple(CHUNK()), T.tuple(CHUNK(), T.str), T.tuple(CHUNK(), CHUNK()),
                                       T.tuple(CHUNK(), ANYTEXT()), T.tuple(T.str, CHUNK()),
                                       *([T.tuple(ANYTEXT(), T.str, ANYTEXT(), CHUNK())]
                                         if _os.environ.get('VERIF_TIER') == 'thorough' else [])),
                     'p': T.int},
             requires=[],
             ensures={
                 'wf': "wf_any(self)",
                 'text': "plain(self.chunks) == text_of_parts(parts)",
                 'len': "self.scrlen == len(text_of_parts(parts))",
                 'colors': "not (0 <= p < self.scrlen) or color_at(self.chunks, p) == color_in_parts(parts, p)",
             },
             result_spec=T.none, havoc=HAVOC_TEXT, symlist_models=COLOR_MODELS, raises={},
             modifies=['self.chunks', 'self.scrlen']),
    Contract(M, 'CHText.__init__', name='CHText.__init__/one_chunk', prop=PROP, spec_globals=G, level='sup',
             params={'self': T.obj('ak.color:CHText'), 'parts': T.tuple(CHUNK())},      # CHText(chunk): the chunk list itself
             requires=[],
             ensures={
                 'shape': "len(self.chunks) == (1 if len(parts[0].text) > 0 else 0)",
                 'the_chunk': "len(self.chunks) == 0 or same_fields(self.chunks[0], parts[0])",
                 'len': "self.scrlen == len(parts[0].text)",
             },
             result_spec=T.none, havoc=HAVOC_TEXT, raises={}, modifies=['self.chunks', 'self.scrlen']),
    Contract(M, 'CHText.__init__', name='CHText.__init__/chunks/any_length', prop=PROP, spec_globals=G, level='top',
             params={'self': T.obj('ak.color:CHText'), 'parts': ANYCHUNKS(), 'p': T.int},      # CHText(*chunks)
             requires=[],
             ensures={
                 'wf': "wf_any(self)",
                 'text': "plain(self.chunks) == plain(parts)",
                 'len': "self.scrlen == total(parts)",
                 'colors': "not (0 <= p < self.scrlen) or color_at(self.chunks, p) == color_at(parts, p)",
             },
             invariants={0: {'inv': "wf_any(self) and plain(self.chunks) == plain_upto(parts, __i) "
                                    "and self.scrlen == offset(parts, __i) "
                                    "and (not (0 <= p < self.scrlen) or color_at(self.chunks, p) == color_at(parts, p))",
                             'modifies': HAVOC_TEXT, 'same_object': ['self']}},
             result_spec=T.none, havoc=HAVOC_TEXT, symlist_models=COLOR_MODELS, raises={},
             modifies=['self.chunks', 'self.scrlen']),
    Contract(M, 'CHText.__add__', name='CHText.__add__/any_length', prop=PROP, spec_globals=G, level='top',
             result_spec=ANYTEXT(),
             params={'self': T.one_of(ANYTEXT()), 'other': T.one_of(ANYTEXT(), T.str, CHUNK()), 'p': T.int},
             requires=["wf_any(self)"],
             ensures={
                 'wf': "wf_any(result)",
                 'text': "plain(result.chunks) == plain(self.chunks) + text_of(other)",
                 'len': "result.scrlen == len(plain(self.chunks)) + len(text_of(other))",
                 'colors': "not (0 <= p < result.scrlen) or color_at(result.chunks, p) == color_in_parts((self, other), p)",
                 'fresh': "result is not self and result.chunks is not self.chunks",
             },
             symlist_models=COLOR_MODELS, raises={}, modifies=[]),
    Contract(M, 'CHText.__radd__', name='CHText.__radd__/any_length', prop=PROP, spec_globals=G, level='top',
             params={'self': T.one_of(ANYTEXT()), 'other': T.one_of(T.str, CHUNK()), 'p': T.int},
             requires=["wf_any(self)"],
             ensures={
                 'wf': "wf_any(result)",
                 'text': "plain(result.chunks) == text_of(other) + plain(self.chunks)",
                 'colors': "not (0 <= p < result.scrlen) or color_at(result.chunks, p) == color_in_parts((other, self), p)",
             },
             symlist_models=COLOR_MODELS, raises={}, modifies=[]),
    Contract(M, 'CHText.join', name='CHText.join/any_length', prop=PROP, spec_globals=G, level='top',
             result_spec=ANYTEXT(),
             params={'self': T.one_of(ANYTEXT()),
                     'iterable': T.one_of(T.list(), T.list(ANYTEXT()), T.list(T.str, ANYTEXT()), T.list(ANYTEXT(), CHUNK(), T.str),
                                          *([T.list(T.str, ANYTEXT(), CHUNK(), ANYTEXT())]
                                            if _os.environ.get('VERIF_TIER') == 'thorough' else [])),
                     'p': T.int},
             requires=[],
             ensures={
                 'wf': "wf_any(result)",
                 'text': "plain(result.chunks) == text_of_parts(interleave(self, iterable))",
                 'colors': "not (0 <= p < result.scrlen) or color_at(result.chunks, p) == "
                           "color_in_parts(interleave(self, iterable), p)",
             },
             symlist_models=COLOR_MODELS, raises={}, modifies=[]),
    Contract(M, 'CHText.__getitem__', name='CHText.__getitem__/slice/any_length', prop=PROP, spec_globals=G, level='top',
             result_spec=ANYTEXT(),
             params={'self': T.one_of(ANYTEXT()),
                     'index': T.one_of(*[_slice_spec(a, b) for a in (False, True) for b in (False, True)])},
             requires=["wf_any(self)"],
             ensures={
                 'text': "plain(result.chunks) == plain(self.chunks)[index.start:index.stop]",
                 'len': "result.scrlen == max(0, norm_hi(index.stop, self.scrlen) - norm_lo(index.start, self.scrlen))",
                 'wf': "wf_any(result)",
             },
             invariants={0: {
                 'inv': "0 <= start_pos < self.scrlen and 0 <= chunk_id < len(self.chunks) and remain_len > 0 "
                        "and remain_len == end_pos - start_pos - total(new_chunks) "
                        "and start_pos + total(new_chunks) + len(cur_chunk.text) == offset(self.chunks, chunk_id + 1) "
                        "and plain_upto(self.chunks, chunk_id + 1) == "
                        "plain(self.chunks)[:start_pos] + plain(new_chunks) + cur_chunk.text "
                        "and len(cur_chunk.text) > 0 and cur_chunk.c_prefix == self.chunks[chunk_id].c_prefix "
                        "and wf_chunks_any(new_chunks) "
                        "and (len(new_chunks) == 0 or new_chunks[-1].c_prefix != cur_chunk.c_prefix)",
                 'havoc': {'new_chunks': ANYCHUNKS(), 'cur_chunk': CHUNK()}}},
             symlist_models=TEXT_MODELS, raises={}, modifies=[], max_paths=20000),
    Contract(M, 'CHText.__getitem__', name='CHText.__getitem__/slice/colors/any_length', prop=PROP, spec_globals=G, level='top',
             params={'self': T.one_of(ANYTEXT()),
                     'index': T.one_of(*[_slice_spec(a, b) for a in (False, True) for b in (False, True)]),
                     'p': T.int},
             requires=["wf_any(self)"],
             ensures={
                 'colors': "not (0 <= p < result.scrlen) or color_at(result.chunks, p) == "
                           "color_at(self.chunks, norm_lo(index.start, self.scrlen) + p)",
             },
             invariants={0: {
                 'inv': "0 <= start_pos < self.scrlen and 0 <= chunk_id < len(self.chunks) and remain_len > 0 "
                        "and remain_len == end_pos - start_pos - total(new_chunks) "
                        "and start_pos + total(new_chunks) + len(cur_chunk.text) == offset(self.chunks, chunk_id + 1) "
                        "and plain_upto(self.chunks, chunk_id + 1) == "
                        "plain(self.chunks)[:start_pos] + plain(new_chunks) + cur_chunk.text "
                        "and len(cur_chunk.text) > 0 and cur_chunk.c_prefix == self.chunks[chunk_id].c_prefix "
                        "and wf_chunks_any(new_chunks) "
                        "and (len(new_chunks) == 0 or new_chunks[-1].c_prefix != cur_chunk.c_prefix) "
                        "and offset(self.chunks, chunk_id) <= start_pos + total(new_chunks) "
                        "and (not (0 <= p < total(new_chunks)) or color_at(new_chunks, p) == "
                        "color_at(self.chunks, start_pos + p))",
                 'havoc': {'new_chunks': ANYCHUNKS(), 'cur_chunk': CHUNK()}}},
             symlist_models=COLOR_MODELS, raises={}, modifies=[], max_paths=20000),
    Contract(M, 'CHText.__eq__', name='CHText.__eq__/str/any_length', prop=PROP, spec_globals=G, level='top',
             params={'self': T.one_of(ANYTEXT()), 'other': T.str},
             requires=["wf_any(self)"],
             ensures={'default_coloured_text_equals_str':
                      "result == (all(c.c_prefix == '' for c in self.chunks) and plain(self.chunks) == other)"},
             symlist_models=TEXT_MODELS, raises={}, modifies=[]),
    Contract(M, 'CHText.__iadd__', name='CHText.__iadd__/self/any_length', prop=PROP, spec_globals=G, level='top',
             params={'self': T.one_of(ANYTEXT()), 'other': T.same_as('self'), 'p': T.int},      # t += t
             requires=["wf_any(self)"],
             ensures={
                 'wf': "wf_any(self)",
                 'text': "plain(self.chunks) == plain(old(self.chunks)) + plain(old(self.chunks))",
                 'len': "self.scrlen == 2 * old(self.scrlen)",
                 'colors': "not (0 <= p < self.scrlen) or color_at(self.chunks, p) == "
                           "color_at(old(self.chunks), p if p < old(self.scrlen) else p - old(self.scrlen))",
                 'returns_self': "result is self",
             },
             invariants={1: {'inv': "wf_any(self) and plain(self.chunks) == plain(old(self.chunks)) + plain_upto(old(self.chunks), __i)"
                                    " and self.scrlen == old(self.scrlen) + offset(old(self.chunks), __i)"
                                    " and (not (0 <= p < self.scrlen) or color_at(self.chunks, p) == "
                                    "color_at(old(self.chunks), p if p < old(self.scrlen) else p - old(self.scrlen)))",
                             'modifies': HAVOC_TEXT}},
             symlist_models=COLOR_MODELS, raises={}, modifies=['self.chunks', 'self.scrlen']),
    Contract(M, 'CHText.__iadd__', name='CHText.__iadd__/list/any_length', prop=PROP, spec_globals=G, level='top',
             havoc=HAVOC_TEXT, result_spec=_RET_SELF,
             params={'self': T.one_of(ANYTEXT()),
                     'other': T.one_of(T.list(), T.list(T.str, ANYTEXT()), T.tuple(ANYTEXT(), CHUNK(), T.str),
                                       T.list(T.list(T.str, CHUNK()), ANYTEXT())),
                     'p': T.int},
             requires=["wf_any(self)"],
             ensures={
                 'wf': "wf_any(self)",
                 'text': "plain(self.chunks) == plain(old(self.chunks)) + text_of(other)",
                 'len': "self.scrlen == old(self.scrlen) + len_of(other)",
                 'colors': "not (0 <= p < self.scrlen) or color_at(self.chunks, p) == "
                           "(color_at(old(self.chunks), p) if p < old(self.scrlen) else color_of(other, p - old(self.scrlen)))",
                 'returns_self': "result is self",
             },
             symlist_models=COLOR_MODELS, raises={}, modifies=['self.chunks', 'self.scrlen']),
    Contract(M, 'CHText.__format__', name='CHText.__format__/any_length', prop=PROP, spec_globals=G, level='top',
             result_spec=T.str,
             params={'self': T.one_of(ANYTEXT()),
                     'fill': T.one_of(T.const(''), T.str_len(1)),
                     'align': T.one_of(T.const(''), T.const('<'), T.const('>'), T.const('^')),
                     'width': T.one_of(T.const(''), *[T.const(w) for w in _FORMAT_WIDTHS]),
                     'kind': T.one_of(T.const(''), T.const('s')),
                     'format_spec': _FORMAT_SPEC},
             requires=["wf_any(self)", "fill == '' or align != ''"],
             ensures={'padding': "result == pad_like_str(rendered(self.chunks), self.scrlen, fill, align, width)"},
             symlist_models=FOLD_MODELS, raises={}, modifies=[]),
    Contract(__name__, 'lemma_canonical', name='lemma_canonical/any_length', prop=PROP, spec_globals=G, level='top', kind='lemma',
             params={'a': ANYCHUNKS(), 'b': ANYCHUNKS()},
             requires=["wf_chunks_any(a)", "wf_chunks_any(b)", "same_picture(a, b)"],
             ensures={'same_length': "result and len(a) == len(b)",
                      'same_chunks': "all(x.c_prefix == y.c_prefix and x.text == y.text for x, y in zip(a, b))"},
             invariants={0: {'inv': "__i <= len(b) and offset(a, __i) == offset(b, __i) "
                                    "and plain_upto(a, __i) == plain_upto(b, __i) "
                                    "and all(a[j].c_prefix == b[j].c_prefix and a[j].text == b[j].text for j in range(__i))"}},
             symlist_models=COLOR_MODELS, raises={}, modifies=[]),
    Contract(__name__, 'lemma_pointwise', name='lemma_pointwise/any_length', prop=PROP, spec_globals=G, level='top', kind='lemma',
             params={'a': ANYCHUNKS(), 'b': ANYCHUNKS(), 'q': T.int},
             requires=["len(a) == len(b)", "all(same_fields(x, y) for x, y in zip(a, b))"],
             ensures={'same_text': "result and plain(a) == plain(b) and total(a) == total(b)",
                      'same_colour_at_q': "not (0 <= q < total(a)) or color_at(a, q) == color_at(b, q)"},
             invariants={0: {'inv': "offset(a, __i) == offset(b, __i) and plain_upto(a, __i) == plain_upto(b, __i) "
                                    "and all(offset(a, j) == offset(b, j) for j in range(__i + 1))"}},
             symlist_models=COLOR_MODELS, raises={}, modifies=[]),
    Contract(M, '_CHTextChunk.__eq__', name='_CHTextChunk.__eq__/chunk', prop=PROP, spec_globals=G, level='sup',
             params={'self': CHUNK(), 'other': T.one_of(CHUNK(), T.same_as('self'))},
             ensures={'fieldwise': "result == same_fields(self, other)"},
             result_spec=_chunk_eq_result, raises={}, modifies=[]),
    Contract(M, 'CHText.__eq__', name='CHText.__eq__/text/any_length', prop=PROP, spec_globals=G, level='top',
             params={'self': T.one_of(ANYTEXT()), 'other': T.one_of(ANYTEXT()), 'p': T.int},
             requires=["wf_any(self)", "wf_any(other)", "all_wfc(self.chunks)", "all_wfc(other.chunks)"],
             ensures={
                 'equal_texts_show_the_same': "not result or (plain(self.chunks) == plain(other.chunks) and "
                                              "(not (0 <= p < self.scrlen) or color_at(self.chunks, p) == color_at(other.chunks, p)))",
                 'same_picture_compares_equal': "not same_picture(self.chunks, other.chunks) or result",
             },
             lemmas=[('lemma_canonical/any_length', {'a': 'self.chunks', 'b': 'other.chunks'}),
                     ('lemma_pointwise/any_length', {'a': 'self.chunks', 'b': 'other.chunks', 'q': 'p'})],
             symlist_models=COLOR_MODELS, raises={}, modifies=[]),
    Contract(M, 'CHText.fixed_len', name='CHText.fixed_len/any_length', prop=PROP, spec_globals=G, level='top',
             params={'self': T.one_of(ANYTEXT()), 'desired_len': T.int, 'p': T.int},
             requires=["wf_any(self)", "desired_len >= 0"],
             ensures={
                 'len': "result.scrlen == desired_len",
                 'text': "plain(result.chunks) == (plain(self.chunks)[:desired_len] if desired_len <= self.scrlen "
                         "else plain(self.chunks) + ' ' * (desired_len - self.scrlen))",
                 'wf': "wf_any(result)",
                 'colors': "not (0 <= p < desired_len) or color_at(result.chunks, p) == "
                           "(color_at(self.chunks, p) if p < self.scrlen else '')",
             },
             symlist_models=COLOR_MODELS, raises={}, modifies=[]),
    Contract(M, 'CHText.__getitem__', name='CHText.__getitem__/index/any_length', prop=PROP, spec_globals=G, level='top',
             params={'self': T.one_of(ANYTEXT()), 'index': T.int},
             requires=["self.scrlen == total(self.chunks)"],
             ensures={
                 'char': "plain(result.chunks) == plain(self.chunks)[index]",
                 'color': "len(result.chunks) == 1 and result.chunks[0].c_prefix == "
                          "color_at(self.chunks, index if index >= 0 else self.scrlen + index)",
                 'wf': "wf(result)",
                 'in_range': "-self.scrlen <= index < self.scrlen",
             },
             raises={'index_error': ((IndexError,), "not (-self.scrlen <= index < self.scrlen)")},
             symlist_models=COLOR_MODELS,
             modifies=[]),
]

# ---- the single-coloured chunk (what ColorFmt(...)(text) returns): its public operations --------------------
# No container here, so nothing is bounded: every obligation is over all texts / colours / operands; operand texts
# (CHText) have any number of chunks.  Concatenations and constructors go through the contracts of CHText above.
_CH_OPERAND = T.one_of(T.str, CHUNK(), ANYTEXT())
_CH_CAT = {
    'wf': "wf_any(result)",
    'text': "plain(result.chunks) == {text}",
    'len': "result.scrlen == len({text})",
    'colors': "not (0 <= p < result.scrlen) or color_at(result.chunks, p) == color_in_parts({parts}, p)",
    'is_text': "isinstance(result, CHText_cls)",
}


def _ch_cat(text, parts):
    return {k: v.format(text=text, parts=parts) for k, v in _CH_CAT.items()}


CHUNK_CONTRACTS = [
    Contract(M, '_CHTextChunk.clone', prop=PROP, spec_globals=G, level='sup',
             params={'self': CHUNK(), 'new_text': T.str},
             ensures={'same_colour_new_text': "result.c_prefix == self.c_prefix and result.c_suffix == self.c_suffix "
                                              "and result.text == new_text",       # (chunks are immutable: identity is not demanded)
                      'is_chunk': "isinstance(result, Chunk_cls)"},
             raises={}, modifies=[]),
    Contract(M, '_CHTextChunk.has_same_type', prop=PROP, spec_globals=G, level='sup',
             params={'self': CHUNK(), 'other': T.one_of(CHUNK(), T.same_as('self'))},
             ensures={'same_colour': "result == (self.c_prefix == other.c_prefix)"},
             raises={}, modifies=[]),
    Contract(M, '_CHTextChunk.add_chunks_same_type', prop=PROP, spec_globals=G, level='sup',
             params={'self': CHUNK(), 'other': CHUNK()},
             requires=["self.c_prefix == other.c_prefix"],
             ensures={'merged': "result.c_prefix == self.c_prefix and result.c_suffix == self.c_suffix "
                                "and result.text == self.text + other.text"},
             raises={}, modifies=[]),
    Contract(M, '_CHTextChunk.__str__', prop=PROP, spec_globals=G, level='top',
             params={'self': CHUNK()},
             ensures={'rendered': "result == self.c_prefix + self.text + self.c_suffix"}, raises={}, modifies=[]),
    Contract(M, '_CHTextChunk.plain_text', prop=PROP, spec_globals=G, level='top',
             params={'self': CHUNK()}, ensures={'text': "result == self.text"}, raises={}, modifies=[]),
    Contract(M, '_CHTextChunk.__len__', prop=PROP, spec_globals=G, level='top',
             params={'self': CHUNK()}, ensures={'visible_chars': "result == len(self.text)"}, raises={}, modifies=[]),
    Contract(M, '_CHTextChunk.__eq__', name='_CHTextChunk.__eq__/str', prop=PROP, spec_globals=G, level='top',
             params={'self': CHUNK(), 'other': T.str},
             ensures={'default_coloured_chunk_equals_str': "result == (self.c_prefix == '' and self.text == other)"},
             raises={}, modifies=[]),
    Contract(M, '_CHTextChunk.__getitem__', name='_CHTextChunk.__getitem__/index', prop=PROP, spec_globals=G, level='top',
             params={'self': CHUNK(), 'index': T.int},
             ensures={'char': "result.text == self.text[index]",
                      'color': "result.c_prefix == self.c_prefix and result.c_suffix == self.c_suffix",
                      'in_range': "-len(self.text) <= index < len(self.text)"},
             raises={'index_error': ((IndexError,), "not (-len(self.text) <= index < len(self.text))")}, modifies=[]),
    Contract(M, '_CHTextChunk.__getitem__', name='_CHTextChunk.__getitem__/slice', prop=PROP, spec_globals=G, level='top',
             params={'self': CHUNK(), 'index': T.one_of(*[_slice_spec(a, b) for a in (False, True) for b in (False, True)])},
             ensures={'text': "result.text == self.text[index.start:index.stop]",
                      'color': "result.c_prefix == self.c_prefix and result.c_suffix == self.c_suffix"},
             raises={}, modifies=[]),
    Contract(M, '_CHTextChunk.__add__', prop=PROP, spec_globals=G, level='top', result_spec=ANYTEXT(),
             params={'self': CHUNK(), 'other': _CH_OPERAND, 'p': T.int},
             ensures=_ch_cat("self.text + text_of(other)", "(self, other)"),
             symlist_models=COLOR_MODELS, raises={}, modifies=[]),
    Contract(M, '_CHTextChunk.__iadd__', prop=PROP, spec_globals=G, level='top', result_spec=ANYTEXT(),
             params={'self': CHUNK(), 'other': _CH_OPERAND, 'p': T.int},
             ensures=_ch_cat("self.text + text_of(other)", "(self, other)"),
             symlist_models=COLOR_MODELS, raises={}, modifies=[]),
    Contract(M, '_CHTextChunk.__radd__', prop=PROP, spec_globals=G, level='top', result_spec=ANYTEXT(),
             params={'self': CHUNK(), 'other': T.one_of(T.str, CHUNK()), 'p': T.int},
             ensures=_ch_cat("text_of(other) + self.text", "(other, self)"),
             symlist_models=COLOR_MODELS, raises={}, modifies=[]),
    Contract(M, '_CHTextChunk.fixed_len', prop=PROP, spec_globals=G, level='top', result_spec=ANYTEXT(),
             params={'self': CHUNK(), 'desired_len': T.int, 'p': T.int},
             requires=["desired_len >= 0"],
             ensures={
                 'len': "result.scrlen == desired_len",
                 'text': "plain(result.chunks) == (self.text[:desired_len] if desired_len <= len(self.text) "
                         "else self.text + ' ' * (desired_len - len(self.text)))",
                 'wf': "wf_any(result)",
                 'colors': "not (0 <= p < desired_len) or color_at(result.chunks, p) == "
                           "(self.c_prefix if p < len(self.text) else '')",
                 'is_text': "isinstance(result, CHText_cls)",
             },
             symlist_models=COLOR_MODELS, raises={}, modifies=[]),
    Contract(M, '_CHTextChunk.join', prop=PROP, spec_globals=G, level='top', result_spec=ANYTEXT(),
             params={'self': CHUNK(),
                     'iterable': T.one_of(T.list(), T.list(ANYTEXT()), T.list(T.str, ANYTEXT()), T.list(ANYTEXT(), CHUNK(), T.str)),
                     'p': T.int},
             ensures={
                 'wf': "wf_any(result)",
                 'text': "plain(result.chunks) == text_of_parts(interleave(self, iterable))",
                 'colors': "not (0 <= p < result.scrlen) or color_at(result.chunks, p) == "
                           "color_in_parts(interleave(self, iterable), p)",
             },
             symlist_models=COLOR_MODELS, raises={}, modifies=[]),
    Contract(M, '_CHTextChunk.__format__', prop=PROP, spec_globals=G, level='top',
             params={'self': CHUNK(),
                     'fill': T.one_of(T.const(''), T.str_len(1)),
                     'align': T.one_of(T.const(''), T.const('<'), T.const('>'), T.const('^')),
                     'width': T.one_of(T.const(''), *[T.const(w) for w in _FORMAT_WIDTHS]),
                     'kind': T.one_of(T.const(''), T.const('s')),
                     'format_spec': _FORMAT_SPEC},
             requires=["fill == '' or align != ''"],
             # the statement fixes the visible text and the colour of the chunk's own characters; whether the FILL of a bare
             # chunk is shown uncoloured (what the code does, via CHText) or in the chunk's colour is left open by it
             # (seeded change C08-10, judged outside): both are accepted, anything else is not
             ensures={'padding': "result == pad_like_str((self.c_prefix + self.text + self.c_suffix) if len(self.text) > 0 else '', "
                                 "len(self.text), fill, align, width) or "
                                 "result == self.c_prefix + pad_like_str(self.text, len(self.text), fill, align, width) + self.c_suffix"},
             symlist_models=FOLD_MODELS, raises={}, modifies=[]),
]
UNBOUNDED_CONTRACTS += CHUNK_CONTRACTS

# ---- the constructor from a chunk list, for a list of ANY length (section 19.3) ---------------------------------
_MERGE_INV = (
    "len(chunks_list) >= 2 and 0 <= __i < len(chunks_list) "
    "and plain(result) + cur_chunk.text == plain_upto(chunks_list, __i + 1) "
    "and total(result) + len(cur_chunk.text) == offset(chunks_list, __i + 1) "
    "and cur_chunk.c_prefix == chunks_list[__i].c_prefix "
    "and all(result[i].c_prefix != result[i + 1].c_prefix for i in range(len(result) - 1)) "
    "and (len(result) == 0 or result[-1].c_prefix != cur_chunk.c_prefix) "
    "and (not (0 <= p < offset(chunks_list, __i + 1)) or "
    "(color_at(result, p) if p < total(result) else cur_chunk.c_prefix) == color_at(chunks_list, p)) "
    "and (not all(len(c.text) > 0 for c in chunks_list) or "
    "(all(len(c.text) > 0 for c in result) and len(cur_chunk.text) > 0))")
UNBOUNDED_CONTRACTS += [
    Contract(M, 'CHText._merge_chunks', name='CHText._merge_chunks/any_length', prop=PROP, spec_globals=G, level='top',
             result_spec=ANYCHUNKS(),
             params={'cls': T.cls('ak.color:CHText'), 'chunks_list': ANYCHUNKS(), 'p': T.int},
             ensures={
                 'text': "plain(result) == plain(chunks_list)",
                 'len': "total(result) == total(chunks_list)",
                 'colors': "not (0 <= p < total(chunks_list)) or color_at(result, p) == color_at(chunks_list, p)",
                 'neighbours_differ': "all(result[i].c_prefix != result[i + 1].c_prefix for i in range(len(result) - 1))",
                 'no_empty_chunk_added': "not all(len(c.text) > 0 for c in chunks_list) or all(len(c.text) > 0 for c in result)",
             },
             invariants={0: {'inv': _MERGE_INV, 'havoc': {'result': ANYCHUNKS(), 'cur_chunk': CHUNK()}}},
             symlist_models=COLOR_MODELS, raises={}, modifies=[]),
    Contract(M, 'CHText.make', name='CHText.make/any_length', prop=PROP, spec_globals=G, level='top',
             result_spec=ANYTEXT(),
             params={'cls': T.cls('ak.color:CHText'), 'chunks_list': ANYCHUNKS(), 'p': T.int},
             ensures={
                 'text': "plain(result.chunks) == plain(chunks_list)",
                 'len': "result.scrlen == total(chunks_list)",
                 'colors': "not (0 <= p < total(chunks_list)) or color_at(result.chunks, p) == color_at(chunks_list, p)",
                 'wf': "not all(len(c.text) > 0 for c in chunks_list) or wf_any(result)",
                 'is_text': "isinstance(result, CHText_cls)",
             },
             symlist_models=COLOR_MODELS, raises={}, modifies=[]),
]

CONTRACTS = UNBOUNDED_CONTRACTS + [
    Contract(M, 'CHText._get_chunk_pos', prop=PROP, spec_globals=G, level='sup',
             params={'self': TEXTS, 'position': T.int},
             requires=["wf(self)"],
             ensures={
                 'in_range': "(result[0] is not None) == (0 <= position < self.scrlen)",
                 'decomposition': "result[0] is None or (offset(self.chunks, result[0]) + result[1] == position "
                                  "and 0 <= result[1] < len(self.chunks[result[0]].text))",
                 'none_pair': "result[0] is not None or result[1] is None",
             },
             raises={}, modifies=[]),
    Contract(M, 'CHText.__getitem__', name='CHText.__getitem__/index', prop=PROP, spec_globals=G, level='top',
             params={'self': TEXTS, 'index': T.int},
             requires=["wf(self)"],
             ensures={
                 'char': "plain(result.chunks) == plain(self.chunks)[index]",
                 'color': "len(result.chunks) == 1 and result.chunks[0].c_prefix == "
                          "color_at(self.chunks, index if index >= 0 else self.scrlen + index)",
                 'wf': "wf(result)",
                 'in_range': "-self.scrlen <= index < self.scrlen",
             },
             raises={'index_error': ((IndexError,), "not (-self.scrlen <= index < self.scrlen)")},
             modifies=[]),
    Contract(M, 'CHText.__getitem__', name='CHText.__getitem__/slice', prop=PROP, spec_globals=G, level='top',
             params={'self': TEXTS, 'index': T.one_of(*[_slice_spec(a, b) for a in (False, True) for b in (False, True)])},
             requires=["wf(self)"],
             ensures={
                 'text': "plain(result.chunks) == plain(self.chunks)[index.start:index.stop]",
                 'len': "result.scrlen == max(0, norm_hi(index.stop, self.scrlen) - norm_lo(index.start, self.scrlen))",
                 'colors': "same_colors(result.chunks, self.chunks, norm_lo(index.start, self.scrlen))",
                 'wf': "wf(result)",
             },
             raises={}, modifies=[], max_paths=20000),
]




OPERAND = T.one_of(CHUNK(), T.str, T.const(""), TEXT(0), TEXT(1), TEXT(2), T.list(CHUNK(), T.str), T.tuple(TEXT(1), CHUNK()),
                   T.int, T.none)
SMALL_TEXTS = T.one_of(TEXT(0), TEXT(1), TEXT(2))

CONTRACTS += [
    Contract(M, 'CHText._append_chunk', prop=PROP, spec_globals=G, level='top',
             params={'self': TEXTS, 'chunk': CHUNK()},
             requires=["wf(self)"],
             ensures={
                 'view': "runs(self.chunks) == norm_runs(old(runs(self.chunks)) + [(chunk.c_prefix, chunk.text)])",
                 'wf': "wf(self)",
                 'text': "plain(self.chunks) == old(plain(self.chunks)) + chunk.text",
             },
             modifies=['self.chunks', 'self.scrlen'], raises={}),
    Contract(M, 'CHText.__iadd__', prop=PROP, spec_globals=G, level='top',
             params={'self': SMALL_TEXTS, 'other': OPERAND},
             requires=["wf(self)", "not isinstance(other, CHText_cls) or wf(other)"],
             ensures={
                 'view': "runs(self.chunks) == norm_runs(old(runs(self.chunks)) + old(view_of(other)))",
                 'wf': "wf(self)",
                 'returns_self': "result is self",
                 'len': "self.scrlen == old(self.scrlen) + total_runs(old(view_of(other)))",
             },
             modifies=['self.chunks', 'self.scrlen'], raises={}, max_paths=20000),
    Contract(M, 'CHText.__add__', prop=PROP, spec_globals=G, level='top',
             params={'self': SMALL_TEXTS, 'other': T.one_of(CHUNK(), T.str, TEXT(1), TEXT(2), T.list(CHUNK(), T.str))},
             requires=["wf(self)", "not isinstance(other, CHText_cls) or wf(other)"],
             ensures={
                 'view': "runs(result.chunks) == norm_runs(runs(self.chunks) + view_of(other))",
                 'wf': "wf(result)",
                 'fresh': "result is not self and result.chunks is not self.chunks",
             },
             modifies=[], raises={}, max_paths=20000),
    Contract(M, 'CHText.__radd__', prop=PROP, spec_globals=G, level='top',
             params={'self': SMALL_TEXTS, 'other': T.one_of(CHUNK(), T.str, T.list(T.str, CHUNK()))},
             requires=["wf(self)"],
             ensures={
                 'view': "runs(result.chunks) == norm_runs(view_of(other) + runs(self.chunks))",
                 'wf': "wf(result)",
             },
             modifies=[], raises={}, max_paths=20000),
    Contract(M, 'CHText.__eq__', name='CHText.__eq__/text', prop=PROP, spec_globals=G, level='top',
             params={'self': SMALL_TEXTS, 'other': SMALL_TEXTS},
             requires=["wf(self)", "wf(other)", "all_wfc(self.chunks)", "all_wfc(other.chunks)"],
             ensures={'canonical': "result == (runs(self.chunks) == runs(other.chunks))"},
             modifies=[], raises={}, max_paths=20000),
    Contract(M, 'CHText.__eq__', name='CHText.__eq__/str', prop=PROP, spec_globals=G, level='top',
             params={'self': TEXTS, 'other': T.str},
             requires=["wf(self)", "all_wfc(self.chunks)"],
             ensures={'plain_equals_str': "result == (all(c.c_prefix == '' for c in self.chunks) and "
                                          "plain(self.chunks) == other)"},
             modifies=[], raises={}),
    Contract(M, 'CHText.fixed_len', prop=PROP, spec_globals=G, level='top',
             params={'self': SMALL_TEXTS, 'desired_len': T.nat},
             requires=["wf(self)"],
             ensures={
                 'len': "result.scrlen == desired_len",
                 # (text + spaces)[:n], stated without a symbolic repetition on the spec side:
                 'text_prefix': "plain(result.chunks)[:self.scrlen] == plain(self.chunks)[:desired_len]",
                 'padding_is_spaces': "fullmatch(' *', plain(result.chunks)[self.scrlen:])",
                 'wf': "wf(result)",
             },
             modifies=[], raises={}, max_paths=20000),
]


def joined_view(sep_runs, items):
    out = []
    first = True
    for it in items:
        if not first:
            out = out + sep_runs
        first = False
        out = out + view_of(it)
    return out


def parts_view(parts):
    out = []
    for p in parts:
        out = out + view_of(p)
    return out


CONTRACTS += [
    Contract(M, 'CHText.join', prop=PROP, spec_globals=G, level='top',
             params={'self': T.one_of(TEXT(0), TEXT(1)),
                     'iterable': T.one_of(T.list(), T.list(T.str), T.list(T.str, TEXT(1)), T.list(TEXT(1), T.const(""), T.str),
                                          T.tuple(CHUNK(), T.str), T.list(T.const(""), T.str, T.str))},
             requires=["wf(self)", "all(not isinstance(x, CHText_cls) or wf(x) for x in iterable)"],
             ensures={
                 'view': "runs(result.chunks) == norm_runs(joined_view(runs(self.chunks), iterable))",
                 'wf': "wf(result)",
             },
             modifies=[], raises={}, max_paths=20000),
    Contract(M, 'CHText.__init__', prop=PROP, spec_globals=G, level='top',
             params={'self': T.obj('ak.color:CHText'),
                     'parts': T.one_of(T.tuple(), T.tuple(T.str), T.tuple(CHUNK(), T.str), T.tuple(TEXT(2), CHUNK()),
                                       T.tuple(T.list(T.str, CHUNK()), TEXT(1)), T.tuple(T.const(""), T.none))},
             requires=["all(not isinstance(x, CHText_cls) or wf(x) for x in parts)"],
             ensures={
                 'view': "runs(self.chunks) == norm_runs(parts_view(parts))",
                 'wf': "wf(self)",
             },
             modifies=['self.chunks', 'self.scrlen'], raises={}, max_paths=20000),
]


def merged_runs(rs):
    """what CHText.make shows: equal-coloured neighbouring runs merged, in order; empty runs are NOT dropped
    (`make` is the constructor for internal use, it keeps an empty chunk it is given)"""
    out = []
    for r in rs:
        if out and out[-1][0] == r[0]:
            out[-1] = (r[0], out[-1][1] + r[1])
        else:
            out.append(r)
    return out


def neighbours_differ(chunks):
    return all(a.c_prefix != b.c_prefix for a, b in zip(chunks[:-1], chunks[1:]))


_MAXM = 8 if _os.environ.get('VERIF_TIER') == 'thorough' else 6       # make: chunk lists of length 0..7 (thorough) / 0..5
CHUNK_LISTS = T.one_of(*[T.list(*[CHUNK() for _ in range(n)]) for n in range(_MAXM)])

CONTRACTS += [
    Contract(M, 'CHText._merge_chunks', prop=PROP, spec_globals=G, level='top',
             params={'cls': T.cls('ak.color:CHText'), 'chunks_list': CHUNK_LISTS},
             requires=["all_wfc(chunks_list)"],
             ensures={
                 'view': "runs(result) == merged_runs(runs(chunks_list))",
                 'text': "plain(result) == plain(chunks_list)",
                 'neighbours_differ': "neighbours_differ(result)",
                 'no_empty_chunk_added': "implies(all(len(c.text) > 0 for c in chunks_list), all(len(c.text) > 0 for c in result))",
                 'suffixes': "all_wfc(result)",
             },
             modifies=[], raises={}, max_paths=20000),
    Contract(M, 'CHText.make', prop=PROP, spec_globals=G, level='top',
             params={'cls': T.cls('ak.color:CHText'), 'chunks_list': CHUNK_LISTS},
             requires=["all_wfc(chunks_list)"],
             ensures={
                 'view': "runs(result.chunks) == merged_runs(runs(chunks_list))",
                 'text': "plain(result.chunks) == plain(chunks_list)",
                 'len': "result.scrlen == total(chunks_list)",
                 'wf': "implies(all(len(c.text) > 0 for c in chunks_list), wf(result))",
                 'is_text': "isinstance(result, CHText_cls)",
             },
             modifies=[], raises={}, max_paths=20000),
]


def total_runs(rs):
    n = 0
    for r in rs:
        n = n + len(r[1])
    return n


CHText_cls = akc.CHText
Chunk_cls = akc._CHTextChunk

BOUNDED_SYMBOLIC = {'CHText.__format__/any_length': f"widths from {{none, {', '.join(map(str, _FORMAT_WIDTHS))}}}; any fill character, every alignment, text with any number of chunks",
                    'CHText.join/any_length': "at most 3 (thorough: 4) joined items (str / chunk / text); every text has any number of chunks",
                    'CHText.__init__/any_length': "at most 3 (thorough: 4) constructor arguments (str / chunk / text); every text has any number of chunks",
                    '_CHTextChunk.__format__': f"widths from {{none, {', '.join(map(str, _FORMAT_WIDTHS))}}}; any fill character, every alignment, any chunk",
                    '_CHTextChunk.join': "at most 3 joined items (str / chunk / text); every text has any number of chunks",
                    'CHText.join': 3, 'CHText._merge_chunks': _MAXM - 1, 'CHText.make': _MAXM - 1, 'CHText.__init__': 2, 'CHText._append_chunk': 3, 'CHText.__iadd__': 2, 'CHText.__add__': 2, 'CHText.__radd__': 2,
                    'CHText.__eq__/text': 2, 'CHText.__eq__/str': 3, 'CHText.fixed_len': 2, 'CHText._get_chunk_pos': 3, 'CHText.__getitem__/index': 3, 'CHText.__getitem__/slice': 3}
_IADD_ANY = ['CHText.__iadd__/chunk/any_length', 'CHText.__iadd__/str/any_length', 'CHText.__iadd__/text/any_length']
_IADD_ALL = _IADD_ANY + ['CHText.__iadd__/list/any_length']
RECIPES = {'__slice__': lambda f: slice(f['start'], f['stop'])}
USES = {'CHText.__getitem__/index/any_length': ['CHText._get_chunk_pos/any_length'],
        'CHText.__getitem__/slice/any_length': ['CHText._get_chunk_pos/any_length', 'CHText.__init__/chunks/any_length',
                                                'CHText.__init__/any_length'],
        'CHText.__iadd__/chunk/any_length': ['CHText._append_chunk/any_length'],
        'CHText.__iadd__/str/any_length': ['CHText._append_chunk/any_length'],
        'CHText.__iadd__/text/any_length': ['CHText._append_chunk/any_length'],
        'CHText.__getitem__/slice/colors/any_length': ['CHText._get_chunk_pos/any_length', 'CHText.__init__/chunks/any_length',
                                                       'CHText.__init__/any_length'],
        'CHText.fixed_len/any_length': ['CHText.__getitem__/slice/any_length', 'CHText.__getitem__/slice/colors/any_length',
                                        'CHText.__add__/any_length', 'CHText.__len__/any_length'],
        'CHText.__eq__/text/any_length': ['_CHTextChunk.__eq__/chunk'],
        'CHText.__iadd__/list/any_length': _IADD_ALL,
        'CHText.__iadd__/self/any_length': ['CHText._append_chunk/any_length'],
        'CHText.__init__/any_length': _IADD_ANY, 'CHText.__init__/chunks/any_length': _IADD_ANY, 'CHText.__add__/any_length': _IADD_ANY + ['CHText.__init__/any_length'],
        'CHText.__radd__/any_length': ['CHText.__init__/any_length'],
        'CHText.join/any_length': _IADD_ANY + ['CHText.__init__/any_length'],
        '_CHTextChunk.__add__': _IADD_ANY + ['CHText.__init__/any_length'],
        '_CHTextChunk.__iadd__': _IADD_ANY + ['CHText.__init__/any_length'],
        '_CHTextChunk.__radd__': _IADD_ANY + ['CHText.__init__/any_length'],
        '_CHTextChunk.fixed_len': _IADD_ANY + ['CHText.__init__/any_length'],
        'CHText.make/any_length': ['CHText._merge_chunks/any_length'],
        '_CHTextChunk.__format__': _IADD_ANY + ['CHText.__init__/any_length', 'CHText.__init__/one_chunk', 'CHText.__format__/any_length'],
        '_CHTextChunk.join': _IADD_ANY + ['CHText.__init__/any_length', 'CHText.__init__/one_chunk', 'CHText.join/any_length']}
ASSUMED_LIBRARY = []
def _wf_chunks_sample(rng, first_id=1):
    cols = ['', '\x1b[31m', '\x1b[1;32m', '\x1b[38;5;12m']
    out, prev = [], None
    for i in range(rng.choice([0, 1, 2, 3, 5])):
        c = rng.choice([x for x in cols if x != prev])
        prev = c
        out.append({'__class__': 'ak.color:_CHTextChunk', '__id__': first_id + i,
                    'fields': {'c_prefix': c, 'text': rng.choice(['a', 'bc', ' ', 'xyz', 'é']), 'c_suffix': '' if c == '' else '\x1b[0m'}})
    return out


def _same_picture_sample(rng):
    """two well-formed lists showing the same picture (by canonical form: the same chunks), mostly; sometimes a variant
    that differs in one text or colour (the pre-condition then fails and the sample is skipped)"""
    a = _wf_chunks_sample(rng, 1)
    b = json.loads(json.dumps(a))
    for i, c in enumerate(b):
        c['__id__'] = 100 + i
    if b and rng.random() < 0.2:
        b[rng.randrange(len(b))]['fields']['text'] += 'q'
    return {'a': a, 'b': b}


def _pointwise_sample(rng):
    d = _same_picture_sample(rng)
    d['q'] = rng.randint(-2, 12)
    return d


import json       # noqa
for _c in CONTRACTS:
    if _c.name == 'lemma_canonical/any_length':
        _c.sampler = _same_picture_sample
    if _c.name == 'lemma_pointwise/any_length':
        _c.sampler = _pointwise_sample

NATIVE_SAMPLING = {'select': ('any_length', '_CHTextChunk.', 'CHText.make', 'CHText._merge_chunks', 'one_chunk'), 'n': 150}
CANARIES = [
    {'name': 'anylen_merge_loses_last_run', 'module': M, 'function': 'CHText._merge_chunks', 'verify': 'CHText._merge_chunks/any_length',
     'old': '        result.append(cur_chunk)\n        return result', 'new': '        return result',
     'unproved_is_enough': True, 'expect': 'C08.CHText._merge_chunks/any_length.text'},
    {'name': 'anylen_merge_scan_stops_after_three_chunks', 'module': M, 'function': 'CHText._merge_chunks',
     'verify': 'CHText._merge_chunks/any_length',
     'old': 'for c, next_c in zip(chunks_list[:-1], chunks_list[1:]))', 'new': 'for c, next_c in zip(chunks_list[:2], chunks_list[1:3]))',
     'unproved_is_enough': True, 'expect': 'C08.CHText._merge_chunks/any_length.neighbours_differ'},
    {'name': 'anylen_make_skips_merge', 'module': M, 'function': 'CHText.make', 'verify': 'CHText.make/any_length',
     'old': 'chunks_list = cls._merge_chunks(chunks_list)', 'new': 'chunks_list = list(chunks_list)',
     'unproved_is_enough': True, 'expect': 'C08.CHText.make/any_length.wf'},
    {'name': 'chunk_radd_wrong_order', 'module': M, 'function': '_CHTextChunk.__radd__',
     'old': 'return CHText(other, self)', 'new': 'return CHText(self, other)',
     'expect': 'C08._CHTextChunk.__radd__.text'},
    {'name': 'chunk_fixed_len_one_space_short', 'module': M, 'function': '_CHTextChunk.fixed_len',
     'old': 'return CHText(self, " "*len_diff)', 'new': 'return CHText(self, " "*(len_diff - 1))',
     'expect': 'C08._CHTextChunk.fixed_len.len'},
    {'name': 'chunk_index_loses_colour', 'module': M, 'function': '_CHTextChunk.__getitem__', 'verify': '_CHTextChunk.__getitem__/index',
     'old': 'return self.clone(self.text[index])', 'new': 'return type(self)("", self.text[index], "")',
     'expect': 'C08._CHTextChunk.__getitem__/index.color'},
    {'name': 'chunk_eq_str_ignores_colour', 'module': M, 'function': '_CHTextChunk.__eq__', 'verify': '_CHTextChunk.__eq__/str',
     'old': 'return self.is_plain() and self.text == other', 'new': 'return self.text == other',
     'expect': 'C08._CHTextChunk.__eq__/str.default_coloured_chunk_equals_str'},
    {'name': 'chunk_join_uses_plain_separator', 'module': M, 'function': '_CHTextChunk.join',
     'old': 'sep = CHText(self)', 'new': 'sep = CHText(self.text)',
     'unproved_is_enough': True, 'expect': 'C08._CHTextChunk.join.colors'},
    {'name': 'merge_loses_last_run', 'module': M, 'function': 'CHText._merge_chunks',
     'old': '        result.append(cur_chunk)\n        return result', 'new': '        return result',
     'expect': 'C08.CHText._merge_chunks.view'},
    {'name': 'merge_keeps_text_of_first_only', 'module': M, 'function': 'CHText._merge_chunks',
     'old': 'cur_chunk = cur_chunk.add_chunks_same_type(chunk)', 'new': 'cur_chunk = cur_chunk.clone(cur_chunk.text)',
     'expect': 'C08.CHText._merge_chunks.text'},
    {'name': 'make_counts_chunks_not_characters', 'module': M, 'function': 'CHText.make',
     'old': 'result.scrlen = sum(len(c.text) for c in chunks_list)', 'new': 'result.scrlen = len(chunks_list)',
     'expect': 'C08.CHText.make.len'},
    {'name': 'anylen_eq_ignores_colour', 'module': M, 'function': 'CHText.__eq__', 'verify': 'CHText.__eq__/text/any_length',
     'old': 'return all(p0 == p1 for p0, p1 in zip(self.chunks, other.chunks))',
     'new': 'return all(p0.text == p1.text for p0, p1 in zip(self.chunks, other.chunks))',
     'unproved_is_enough': True, 'expect': 'C08.CHText.__eq__/text/any_length.equal_texts_show_the_same'},
    {'name': 'anylen_eq_never_equal_when_many_chunks', 'module': M, 'function': 'CHText.__eq__', 'verify': 'CHText.__eq__/text/any_length',
     'old': 'return all(p0 == p1 for p0, p1 in zip(self.chunks, other.chunks))',
     'new': 'return len(self.chunks) < 3 and all(p0 == p1 for p0, p1 in zip(self.chunks, other.chunks))',
     'unproved_is_enough': True, 'expect': 'C08.CHText.__eq__/text/any_length.same_picture_compares_equal'},
    {'name': 'anylen_format_centre_extra_char_left', 'module': M, 'function': 'CHText.__format__', 'verify': 'CHText.__format__/any_length',
     'old': 'prefix_width = filler_width // 2', 'new': 'prefix_width = filler_width - filler_width // 2',
     'combos': ["align:const('^')", 'width:const(10)'], 'unproved_is_enough': True,
     'expect': 'C08.CHText.__format__/any_length.padding'},
    {'name': 'anylen_eq_str_ignores_colour', 'module': M, 'function': 'CHText.__eq__', 'verify': 'CHText.__eq__/str/any_length',
     'old': 'return p.is_plain() and p.text == other', 'new': 'return p.text == other',
     'unproved_is_enough': True, 'expect': 'C08.CHText.__eq__/str/any_length.default_coloured_text_equals_str'},
    {'name': 'anylen_self_append_without_copy', 'module': M, 'function': 'CHText.__iadd__', 'verify': 'CHText.__iadd__/self/any_length',
     'old': 'for part in list(other.chunks):  # other may be self', 'new': 'for part in other.chunks:',
     'unproved_is_enough': True, 'expect': 'C08.CHText.__iadd__/self/any_length.loop1.inv_preserved'},
    {'name': 'anylen_slice_takes_colour_of_first_chunk', 'module': M, 'function': 'CHText.__getitem__',
     'verify': 'CHText.__getitem__/slice/colors/any_length',
     'old': '            new_chunks.append(cur_chunk)\n', 'new': '            new_chunks.append(self.chunks[0].clone(cur_chunk.text))\n',
     'combos': ['slice(int:None)'], 'unproved_is_enough': True,
     'expect': 'C08.CHText.__getitem__/slice/colors/any_length.loop0.inv_preserved'},
    {'name': 'anylen_slice_one_char_too_many', 'module': M, 'function': 'CHText.__getitem__',
     'verify': 'CHText.__getitem__/slice/any_length',
     'old': 'new_chunks.append(cur_chunk.clone(cur_chunk.text[:remain_len]))',
     'new': 'new_chunks.append(cur_chunk.clone(cur_chunk.text[:remain_len + 1]))',
     'combos': ['slice(None:int)'], 'unproved_is_enough': True,
     'expect': 'C08.CHText.__getitem__/slice/any_length.text'},
    {'name': 'anylen_slice_skips_a_chunk', 'module': M, 'function': 'CHText.__getitem__',
     'verify': 'CHText.__getitem__/slice/any_length',
     'old': 'chunk_id += 1', 'new': 'chunk_id += 2',
     'combos': ['slice(int:None)'], 'unproved_is_enough': True,
     'expect': 'C08.CHText.__getitem__/slice/any_length.loop0.inv_preserved'},
    {'name': 'anylen_iadd_skips_first_chunk_of_operand', 'module': M, 'function': 'CHText.__iadd__',
     'verify': 'CHText.__iadd__/text/any_length',
     'old': 'self._append_chunk(part)', 'new': 'self._append_chunk(part.clone(part.text + "x"))',
     'unproved_is_enough': True,
     'expect': 'C08.CHText.__iadd__/text/any_length.loop1.inv_preserved'},
    {'name': 'anylen_add_mutates_self', 'module': M, 'function': 'CHText.__add__', 'verify': 'CHText.__add__/any_length',
     'old': 'result = type(self)(self)  # clone self', 'new': 'result = self', 'unproved_is_enough': True,
     'expect': 'C08.CHText.__add__/any_length.fresh'},
    {'name': 'anylen_radd_wrong_order', 'module': M, 'function': 'CHText.__radd__', 'verify': 'CHText.__radd__/any_length',
     'old': 'return type(self)(other, self)', 'new': 'return type(self)(self, other)', 'unproved_is_enough': True,
     'expect': 'C08.CHText.__radd__/any_length.text'},
    {'name': 'anylen_join_separator_before_first', 'module': M, 'function': 'CHText.join', 'verify': 'CHText.join/any_length',
     'old': 'is_first = True', 'new': 'is_first = False',
     'combos': ['iterable:list(str,'], 'unproved_is_enough': True,
     'expect': 'C08.CHText.join/any_length.text'},
    {'name': 'anylen_append_counts_one', 'module': M, 'function': 'CHText._append_chunk', 'verify': 'CHText._append_chunk/any_length',
     'old': 'self.scrlen += len(chunk.text)', 'new': 'self.scrlen += 1',
     'expect': 'C08.CHText._append_chunk/any_length.len'},
    {'name': 'anylen_append_compares_with_first_chunk', 'module': M, 'function': 'CHText._append_chunk',
     'verify': 'CHText._append_chunk/any_length',
     'old': 'if self.chunks and chunk.has_same_type(self.chunks[-1]):', 'new': 'if self.chunks and chunk.has_same_type(self.chunks[0]):',
     'expect': 'C08.CHText._append_chunk/any_length.wf'},
    {'name': 'anylen_append_keeps_empty_chunk', 'module': M, 'function': 'CHText._append_chunk',
     'verify': 'CHText._append_chunk/any_length',
     'old': 'if not chunk.text:', 'new': 'if chunk.text is None:',
     'expect': 'C08.CHText._append_chunk/any_length.wf'},
    {'name': 'anylen_merge_in_wrong_order', 'module': M, 'function': 'CHText._append_chunk',
     'verify': 'CHText._append_chunk/any_length',
     'old': 'prev_chunk.clone(prev_chunk.text + chunk.text)', 'new': 'prev_chunk.clone(chunk.text + prev_chunk.text)',
     'expect': 'C08.CHText._append_chunk/any_length.text'},
    {'name': 'anylen_plain_text_of_prefixes', 'module': M, 'function': 'CHText.plain_text', 'verify': 'CHText.plain_text/any_length',
     'old': '"".join(part.text for part in self.chunks)', 'new': '"".join(part.c_prefix for part in self.chunks)',
     'expect': 'C08.CHText.plain_text/any_length.text'},
    {'name': 'anylen_str_drops_suffix', 'module': M, 'function': 'CHText.__str__', 'verify': 'CHText.__str__/any_length',
     'old': '{p.c_prefix}{p.text}{p.c_suffix}', 'new': '{p.c_prefix}{p.text}',
     'expect': 'C08.CHText.__str__/any_length.rendering'},
    {'name': 'anylen_index_takes_first_char_of_chunk', 'module': M, 'function': 'CHText.__getitem__',
     'verify': 'CHText.__getitem__/index/any_length',
     'old': 'return type(self)(cur_chunk.clone(cur_chunk.text[chunk_pos]))',
     'new': 'return type(self)(cur_chunk.clone(cur_chunk.text[0]))',
     'expect': 'C08.CHText.__getitem__/index/any_length.char'},
    {'name': 'anylen_index_colour_of_first_chunk', 'module': M, 'function': 'CHText.__getitem__',
     'verify': 'CHText.__getitem__/index/any_length',
     'old': 'return type(self)(cur_chunk.clone(cur_chunk.text[chunk_pos]))',
     'new': 'return type(self)(self.chunks[0].clone(cur_chunk.text[chunk_pos]))',
     'expect': 'C08.CHText.__getitem__/index/any_length.color'},
    {'name': 'anylen_chunk_boundary_off_by_one', 'module': M, 'function': 'CHText._get_chunk_pos',
     'verify': 'CHText._get_chunk_pos/any_length',
     'old': 'if position < len(chunk.text):', 'new': 'if position <= len(chunk.text):',
     'expect': 'C08.CHText._get_chunk_pos/any_length.decomposition'},
    {'name': 'anylen_position_not_advanced', 'module': M, 'function': 'CHText._get_chunk_pos',
     'verify': 'CHText._get_chunk_pos/any_length',
     'old': 'position -= len(chunk.text)', 'new': 'position -= len(chunk.text) - 1',
     'expect': 'C08.CHText._get_chunk_pos/any_length.loop0.inv_preserved'},
    {'name': 'anylen_zero_rejected', 'module': M, 'function': 'CHText._get_chunk_pos',
     'verify': 'CHText._get_chunk_pos/any_length',
     'old': 'if position < 0:', 'new': 'if position <= 0:',
     'expect': 'C08.CHText._get_chunk_pos/any_length.in_range'},
    {'name': 'slice_takes_one_char_too_many', 'module': M, 'function': 'CHText.__getitem__', 'verify': 'CHText.__getitem__/slice',
     'old': 'new_chunks.append(cur_chunk.clone(cur_chunk.text[:remain_len]))',
     'new': 'new_chunks.append(cur_chunk.clone(cur_chunk.text[:remain_len + 1]))',
     'combos': ['slice(None:int)', 'chunks=list(obj(_CHTextChunk:c_prefix=str,text=str,c_suffix=str))'],
     'expect': 'C08.CHText.__getitem__/slice.text'},
    {'name': 'negative_start_not_clamped', 'module': M, 'function': 'CHText.__getitem__', 'verify': 'CHText.__getitem__/slice',
     'old': 'start_pos = max(0, self.scrlen + start_pos)', 'new': 'start_pos = self.scrlen + start_pos',
     'combos': ['slice(int:None)', 'chunks=list(obj(_CHTextChunk:c_prefix=str,text=str,c_suffix=str))'],
     'expect': 'C08.CHText.__getitem__/slice.text'},
    {'name': 'append_forgets_length', 'module': M, 'function': 'CHText._append_chunk',
     'old': 'self.scrlen += len(chunk.text)', 'new': 'self.scrlen += len(chunk.text) if len(self.chunks) > 1 else 0',
     'expect': 'C08.CHText._append_chunk.wf'},
    {'name': 'eq_ignores_colour', 'module': M, 'function': 'CHText.__eq__', 'verify': 'CHText.__eq__/text',
     'old': 'return all(p0 == p1 for p0, p1 in zip(self.chunks, other.chunks))',
     'new': 'return all(p0.text == p1.text for p0, p1 in zip(self.chunks, other.chunks))',
     'expect': 'C08.CHText.__eq__/text.canonical'},
]
