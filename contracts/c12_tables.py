"""C12 / C13 - proved sub-obligations on the table-rendering helpers (ak/ppobj.py, ak/color.py).
Bounded-symbolic: chunk lists of concrete length 0..2/3 with symbolic texts; widths symbolic.
The top-level statements (whole tables) are decided by harness/c12.py and harness/c13.py."""
from pyvc.contract import Contract, T
from pyvc.speclib import implies, iff, fullmatch
from ak import color as akc, ppobj
from contracts.c08_chtext import (plain, total, offset, plain_upto, CHUNK, ANYCHUNKS, TEXT_MODELS)   # noqa: spec functions of C08 reused

PROP = 'C12'
M = 'ak.color'
MP = 'ak.ppobj'
ME = __name__
G = globals()
ALIGN_LEFT, ALIGN_CENTER, ALIGN_RIGHT = ppobj.ALIGN_LEFT, ppobj.ALIGN_CENTER, ppobj.ALIGN_RIGHT


class StubPalette:
    """palette handed to fit_to_width: `text` and `warn` formatters (as every table palette provides)"""

    def text(self, s):
        return akc._CHTextChunk("", s, "")

    def warn(self, s):
        return akc._CHTextChunk("\x1b[31m", s, "\x1b[0m")


def chunks_of(x):
    if isinstance(x, akc._CHTextChunk):
        return [x]
    if isinstance(x, akc.CHText):
        return x.chunks
    return x


def dots(width):
    return min(3, width)


CHUNKS = T.one_of(*[T.list(*[CHUNK() for _ in range(n)]) for n in range(3)])
CELLS = T.one_of(T.list(), T.list(T.list(CHUNK())), T.list(T.list(CHUNK()), T.list()),
                 T.list(T.list(CHUNK(), CHUNK()), T.list(CHUNK()), T.list(CHUNK())))

def _resized_result(bound):
    """at a call site the result is the argument itself or a new list (the post-condition `alias` says when)"""
    def mk(I, name):
        if I.branch(I.st.fresh_bool(name + '.same_list')):
            return bound['chunks']
        return ANYCHUNKS().make(I, name)
    return T.custom('the argument itself or a new list', mk)


CONTRACTS = [
    # chunk lists of ANY length (loop invariant over the truncation walk)
    Contract(M, 'CHText.resize_chunks_list', name='CHText.resize_chunks_list/any_length', prop=PROP, spec_globals=G, level='sup',
             params={'cls': T.cls('ak.color:CHText'), 'chunks': ANYCHUNKS(), 'new_len': T.nat},
             ensures={
                 'len': "total(result) == new_len",
                 'text': "plain(result) == (plain(chunks)[:new_len] if new_len <= total(chunks) "
                         "else plain(chunks) + ' ' * (new_len - total(chunks)))",
                 'alias': "(result is chunks) == (total(chunks) == new_len)",
             },
             result_spec=_resized_result,
             invariants={0: {'inv': "remaining_len >= 0 and remaining_len == new_len - total(result) "
                                    "and plain(result) == plain_upto(chunks, __i)[:new_len] "
                                    "and (remaining_len == 0 or total(result) == offset(chunks, __i))",
                             'havoc': {'result': ANYCHUNKS()}}},
             symlist_models=TEXT_MODELS, raises={}, modifies=[]),
    Contract(MP, 'FieldType.fit_to_width', name='FieldType.fit_to_width/fits/any_length', prop=PROP, spec_globals=G, level='top',
             params={'ch_chunks': ANYCHUNKS(), 'width': T.nat,
                     'align': T.one_of(T.const(ALIGN_LEFT), T.const(ALIGN_CENTER), T.const(ALIGN_RIGHT)),
                     'cp': T.obj(ME + ':StubPalette')},
             requires=["total(ch_chunks) <= width"],
             ensures={
                 'exact_width': "total(result) == width",
                 'left': "align != ALIGN_LEFT or plain(result) == plain(ch_chunks) + ' ' * (width - total(ch_chunks))",
                 'right': "align != ALIGN_RIGHT or plain(result) == ' ' * (width - total(ch_chunks)) + plain(ch_chunks)",
                 'center': "align != ALIGN_CENTER or plain(result) == ' ' * ((width - total(ch_chunks)) // 2) + plain(ch_chunks) "
                           "+ ' ' * (width - total(ch_chunks) - (width - total(ch_chunks)) // 2)",
             },
             symlist_models=TEXT_MODELS, raises={}, modifies=[]),
    Contract(MP, 'FieldType.fit_to_width', name='FieldType.fit_to_width/truncates/any_length', prop=PROP, spec_globals=G,
             level='top',
             params={'ch_chunks': ANYCHUNKS(), 'width': T.nat,
                     'align': T.one_of(T.const(ALIGN_LEFT), T.const(ALIGN_CENTER), T.const(ALIGN_RIGHT)),
                     'cp': T.obj(ME + ':StubPalette')},
             requires=["total(ch_chunks) > width"],
             ensures={
                 'exact_width': "total(result) == width",
                 'prefix_then_dots': "plain(result) == plain(ch_chunks)[:width - dots(width)] + '.' * dots(width)",
                 'argument_untouched': "result is not ch_chunks",
             },
             symlist_models=TEXT_MODELS, raises={}, modifies=[]),
    Contract(M, 'CHText.resize_chunks_list', prop=PROP, spec_globals=G, level='sup',
             params={'cls': T.cls('ak.color:CHText'), 'chunks': CHUNKS, 'new_len': T.nat},
             ensures={
                 'len': "total(result) == new_len",
                 'text_prefix': "plain(result)[:total(chunks)] == plain(chunks)[:new_len]",
                 'padding_is_spaces': "fullmatch(' *', plain(result)[total(chunks):])",
             },
             raises={}, modifies=[]),
    Contract(MP, 'FieldType.fit_to_width', name='FieldType.fit_to_width/fits', prop=PROP, spec_globals=G, level='top',
             params={'ch_chunks': CHUNKS, 'width': T.nat,
                     'align': T.one_of(T.const(ALIGN_LEFT), T.const(ALIGN_CENTER), T.const(ALIGN_RIGHT)),
                     'cp': T.obj(ME + ':StubPalette')},
             requires=["total(ch_chunks) <= width"],
             ensures={
                 'exact_width': "total(result) == width",
                 'left': "align != ALIGN_LEFT or (plain(result)[:total(ch_chunks)] == plain(ch_chunks) "
                         "and fullmatch(' *', plain(result)[total(ch_chunks):]))",
                 'right': "align != ALIGN_RIGHT or (plain(result)[width - total(ch_chunks):] == plain(ch_chunks) "
                          "and fullmatch(' *', plain(result)[:width - total(ch_chunks)]))",
                 'center': "align != ALIGN_CENTER or (plain(result)[(width - total(ch_chunks)) // 2:"
                           "(width - total(ch_chunks)) // 2 + total(ch_chunks)] == plain(ch_chunks) "
                           "and fullmatch(' *', plain(result)[:(width - total(ch_chunks)) // 2]) "
                           "and fullmatch(' *', plain(result)[(width - total(ch_chunks)) // 2 + total(ch_chunks):]))",
             },
             raises={}, modifies=[], max_paths=5000),
    Contract(MP, 'FieldType.fit_to_width', name='FieldType.fit_to_width/truncates', prop=PROP, spec_globals=G, level='top',
             params={'ch_chunks': CHUNKS, 'width': T.nat,
                     'align': T.one_of(T.const(ALIGN_LEFT), T.const(ALIGN_CENTER), T.const(ALIGN_RIGHT)),
                     'cp': T.obj(ME + ':StubPalette')},
             requires=["total(ch_chunks) > width"],
             ensures={
                 'exact_width': "total(result) == width",
                 'prefix_then_dots': "plain(result)[:width - dots(width)] == plain(ch_chunks)[:width - dots(width)] "
                                     "and fullmatch('[.]*', plain(result)[width - dots(width):])",
             },
             raises={}, modifies=[], max_paths=5000),
    Contract(MP, '_PPTableImpl._make_table_line', prop=PROP, spec_globals=G, level='top',
             params={'self': T.obj('ak.ppobj:_PPTableImpl'), 'cells_ch_texts_data': CELLS, 'sep': CHUNK()},
             ensures={
                 'line_text': "plain(chunks_of(result)) == sep.text + sep.text.join(plain(c) for c in cells_ch_texts_data) + sep.text",
                 'line_width': "total(chunks_of(result)) == sum(total(c) for c in cells_ch_texts_data) + "
                               "(max(len(cells_ch_texts_data), 1) + 1) * len(sep.text)",
             },
             raises={}, modifies=[]),
]


BOUNDED_SYMBOLIC = {'CHText.resize_chunks_list': 2, 'FieldType.fit_to_width/fits': 2, 'FieldType.fit_to_width/truncates': 2,
                    '_PPTableImpl._make_table_line': 3}
USES = {'FieldType.fit_to_width/truncates/any_length': ['CHText.resize_chunks_list/any_length']}
ASSUMED_LIBRARY = []
NATIVE_SAMPLING = {'select': 'any_length', 'n': 150}
CANARIES = [
    {'name': 'anylen_truncation_keeps_one_char_too_many', 'module': MP, 'function': 'FieldType.fit_to_width',
     'verify': 'FieldType.fit_to_width/truncates/any_length',
     'old': 'visible_text_len = width - dots_len', 'new': 'visible_text_len = width - dots_len + 1',
     'combos': ['const(1)'], 'unproved_is_enough': True, 'expect': 'C12.FieldType.fit_to_width/truncates/any_length.exact_width'},
    {'name': 'anylen_center_pads_right_first', 'module': MP, 'function': 'FieldType.fit_to_width',
     'verify': 'FieldType.fit_to_width/fits/any_length',
     'old': 'left_filer_len = filler_len // 2', 'new': 'left_filer_len = filler_len - filler_len // 2',
     'combos': ['const(2)'], 'unproved_is_enough': True, 'expect': 'C12.FieldType.fit_to_width/fits/any_length.center'},
    {'name': 'anylen_resize_keeps_one_char_too_many', 'module': M, 'function': 'CHText.resize_chunks_list',
     'verify': 'CHText.resize_chunks_list/any_length',
     'old': 'result.append(item.clone(item.text[:remaining_len]))', 'new': 'result.append(item.clone(item.text[:remaining_len + 1]))',
     'unproved_is_enough': True, 'expect': 'C12.CHText.resize_chunks_list/any_length.loop0.inv_preserved'},
    {'name': 'anylen_resize_pads_one_short', 'module': M, 'function': 'CHText.resize_chunks_list',
     'verify': 'CHText.resize_chunks_list/any_length',
     'old': 'return chunks + [cls.Chunk.make_plain(" "*(new_len - existing_len))]',
     'new': 'return chunks + [cls.Chunk.make_plain(" "*(new_len - existing_len - 1))]',
     'unproved_is_enough': True, 'expect': 'C12.CHText.resize_chunks_list/any_length.len'},
    {'name': 'anylen_resize_forgets_to_count', 'module': M, 'function': 'CHText.resize_chunks_list',
     'verify': 'CHText.resize_chunks_list/any_length',
     'old': 'remaining_len -= cur_item_len', 'new': 'remaining_len -= 0',
     'unproved_is_enough': True, 'expect': 'C12.CHText.resize_chunks_list/any_length.loop0.inv_preserved'},
    {'name': 'truncation_keeps_one_char_too_many', 'module': MP, 'function': 'FieldType.fit_to_width',
     'verify': 'FieldType.fit_to_width/truncates',
     'old': 'visible_text_len = width - dots_len', 'new': 'visible_text_len = width - dots_len + 1',
     'combos': ['const(1)'], 'expect': 'C12.FieldType.fit_to_width/truncates.exact_width'},
    {'name': 'center_pads_right_first', 'module': MP, 'function': 'FieldType.fit_to_width',
     'verify': 'FieldType.fit_to_width/fits',
     'old': 'left_filer_len = filler_len // 2', 'new': 'left_filer_len = filler_len - filler_len // 2',
     'combos': ['const(2)'], 'expect': 'C12.FieldType.fit_to_width/fits.center'},
]
