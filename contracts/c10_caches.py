"""C10 - proved sub-obligations: cache-key soundness of the enum cell cache (PPEnumFieldType), the one cache of the
rendering path whose key must distinguish palettes, plus the syntactic obligation that no cache of the rendering
modules is keyed by id() (an id is only unique among objects alive at the same time).
The four observable claims on whole renderings are decided by harness/c10.py."""
import ast
import os
import weakref

from pyvc.contract import Contract, T
from ak import ppobj, color as akc

PROP = 'C10'
M = 'ak.ppobj'
ME = __name__
G = globals()


class StubFmt:
    """a colour formatter: tags text with its colour prefix"""

    def __init__(self, prefix):
        self.prefix = prefix

    def __call__(self, text):
        return akc._CHTextChunk(self.prefix, text, "")


class StubEnumPalette:
    """field palette of an enum column: four formatters and get_color()"""

    def __init__(self, text, number, keyword, named):
        self.text = text
        self.number = number
        self.keyword = keyword
        self.named = named

    def get_color(self, syntax_name):
        return self.named


def FMT():
    return T.obj(ME + ':StubFmt', prefix=T.str)


def PALETTE():
    return T.obj(ME + ':StubEnumPalette', text=FMT(), number=FMT(), keyword=FMT(), named=FMT())


def FTYPE():
    """an enum field type with two declared values and an empty cache (as the constructor leaves it)"""
    return T.custom('PPEnumFieldType({10: Ok, 20: Failed})', lambda I, name: _mk_ftype(I, name))


def _mk_ftype(I, name):
    from pyvc.values import SObj, SDict
    ft = SObj(ppobj.PPEnumFieldType, {
        'enum_values': SDict({10: ("Ok", None), 20: ("Failed", "WARN")}),
        'enum_missing_value': ("<???>", "error"),
        'max_val_len': 2,
        '_cache': SDict({}, tag='weak'),
        '_cache_lengths': SDict({'full': SDict({}), 'val': SDict({}), 'name': SDict({})}),
    }, tag=name)
    ft.fields['_cache_lengths'].d[None] = ft.fields['_cache_lengths'].d['full']
    return ft


def same_cells(a, b):
    """two (chunks, alignment) results show the same characters in the same colours"""
    return a[1] == b[1] and len(a[0]) == len(b[0]) and \
        all(x.c_prefix == y.c_prefix and x.text == y.text for x, y in zip(a[0], b[0]))


def lemma_cache_isolated(ft_used, ft_fresh, p1, p2, value, mod):
    """a cell rendered for palette p2 after the same field type rendered it for ANOTHER palette p1 equals the cell a
    fresh, equal field type renders for p2: entries made for one palette never serve another"""
    ft_used.make_desired_cell_ch_chunks(value, mod, p1)
    r2 = ft_used.make_desired_cell_ch_chunks(value, mod, p2)
    r_fresh = ft_fresh.make_desired_cell_ch_chunks(value, mod, p2)
    return same_cells(r2, r_fresh)


def lemma_cache_hit_same(ft_used, ft_fresh, p1, value, mod):
    """a repeated request under the same palette gives the same cell as a fresh computation"""
    ft_used.make_desired_cell_ch_chunks(value, mod, p1)
    r2 = ft_used.make_desired_cell_ch_chunks(value, mod, p1)
    r_fresh = ft_fresh.make_desired_cell_ch_chunks(value, mod, p1)
    return same_cells(r2, r_fresh)


VALUES = T.one_of(T.const(10), T.const(20), T.const(99), T.none)
MODS = T.one_of(T.const('full'), T.const('val'), T.const('name'), T.none)

CONTRACTS = [
    Contract(ME, 'lemma_cache_isolated', prop=PROP, spec_globals=G, level='top', kind='lemma',
             params={'ft_used': FTYPE(), 'ft_fresh': FTYPE(), 'p1': PALETTE(), 'p2': PALETTE(), 'value': VALUES, 'mod': MODS},
             ensures={'entries_never_serve_another_palette': "result"}, raises={}),
    Contract(ME, 'lemma_cache_hit_same', prop=PROP, spec_globals=G, level='top', kind='lemma',
             params={'ft_used': FTYPE(), 'ft_fresh': FTYPE(), 'p1': PALETTE(), 'value': VALUES, 'mod': MODS},
             ensures={'cache_hit_equals_fresh': "result"}, raises={}),
]


def _no_id_keys(world=None):
    """no id() value is used as a key in the rendering modules (an id() key outlives its object): flagged are id()
    calls inside a subscript, as argument of .get/.setdefault/.pop, in an `in` test, or assigned to a name that is
    later used in one of these positions in the same function; other uses of id() (logging, repr) are fine"""
    root = os.path.dirname(ppobj.__file__)
    bad = []

    def is_id_call(n):
        return isinstance(n, ast.Call) and isinstance(n.func, ast.Name) and n.func.id == 'id'

    def key_positions(fn_node):
        for n in ast.walk(fn_node):
            if isinstance(n, ast.Subscript):
                yield n.slice
            elif isinstance(n, ast.Call) and isinstance(n.func, ast.Attribute) and n.func.attr in ('get', 'setdefault', 'pop') \
                    and n.args:
                yield n.args[0]
            elif isinstance(n, ast.Compare) and any(isinstance(o, (ast.In, ast.NotIn)) for o in n.ops):
                yield n.left
    for fn in ('color.py', 'ppobj.py', 'hdoc.py', 'ghist.py', 'mcaller.py'):
        with open(os.path.join(root, fn), encoding='utf-8') as f:
            tree = ast.parse(f.read())
        for fdef in [n for n in ast.walk(tree) if isinstance(n, (ast.FunctionDef, ast.Lambda))]:
            id_names = {t.id for n in ast.walk(fdef) if isinstance(n, ast.Assign) and is_id_call(n.value)
                        for t in n.targets if isinstance(t, ast.Name)}
            for k in key_positions(fdef):
                for sub in ast.walk(k):
                    if is_id_call(sub) or (isinstance(sub, ast.Name) and sub.id in id_names):
                        bad.append((fn, getattr(sub, 'lineno', 0), ast.unparse(k)))
    return not bad, {'id_used_as_key': sorted(set(bad))}


STATIC_OBLIGATIONS = {'C10.caches.no_id_keyed_cache': (_no_id_keys, 'top')}

BOUNDED_SYMBOLIC = {}
USES = {}
ASSUMED_LIBRARY = ["weakref.WeakKeyDictionary behaves as a dict keyed by object identity whose entries disappear with their key"]


def lib_models():
    from pyvc.values import SDict

    def m_weakdict(I, args, kwargs):
        return SDict({}, tag='weak')
    return {weakref.WeakKeyDictionary: m_weakdict}


CANARIES = [
    {'name': 'cache_keyed_by_palette_class', 'module': M, 'function': 'PPEnumFieldType.make_desired_cell_ch_chunks',
     'verify': 'lemma_cache_isolated',
     'old': 'cache_key = field_palette ', 'new': 'cache_key = type(field_palette) ',
     'combos': ['value:const(10)', "mod:const('name')"],
     'expect': 'C10.lemma_cache_isolated.entries_never_serve_another_palette'},
]
