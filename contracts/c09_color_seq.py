"""C09 - emitted escape sequences are well-formed, self-contained and strippable.
Contracts on ak/color.py: _ColorSequences, ColorFmt, ColorBytes, _CHTextChunk.__str__,
CHText.__str__/plain_text/strip_colors."""
import re

from pyvc.contract import Contract, T
from pyvc.speclib import implies, iff, fullmatch
from ak import color as akc
from contracts import c08_chtext as _c08

PROP = 'C09'
ESC = "\x1b"
# spec table, from the statement / ECMA-48: 3x / 4x with x = BLACK..WHITE = 0..7
NAME_IDX = {'BLACK': 0, 'RED': 1, 'GREEN': 2, 'YELLOW': 3, 'BLUE': 4, 'MAGENTA': 5, 'CYAN': 6, 'WHITE': 7}
CANON_GRAY = "g(0|[1-9][0-9]*)"
ELEM_RE = "[0-9:]+"        # one SGR parameter (possibly with ':' sub-parameters)


def strip_pattern():
    """the pattern CHText.strip_colors really uses, read from the running module"""
    akc.CHText.strip_colors("")
    return akc.CHText._SEQ_RE.pattern


R = strip_pattern()


def gray_level(color):
    try:
        return int(color[1:])
    except ValueError:
        return -1


def denote(color):
    """SGR parameter text after the leading 3 (foreground) / 4 (background) digit that a colour
    value denotes, or None when the value denotes no colour"""
    if isinstance(color, str):
        if color in NAME_IDX:
            return str(NAME_IDX[color])
        if color.startswith('g'):
            k = gray_level(color)
            if 0 <= k <= 23:
                return "8:5:" + str(232 + k)
        return None
    if isinstance(color, (tuple, list)):
        if len(color) == 3 and all(isinstance(c, int) for c in color) and all(0 <= c <= 5 for c in color):
            return "8:5:" + str(16 + 36 * color[0] + 6 * color[1] + color[2])
        return None
    if isinstance(color, int):
        n = int(color)
        if 0 <= n <= 255:
            return "8:5:" + str(n)
        return None
    return None


def lenient(color):
    """values the statement does not list as colours but that denote one: the implementation may
    either reject them with ValueError or emit the sequence of the denoted colour"""
    if isinstance(color, (bool, list)):
        return True
    if isinstance(color, (tuple,)):
        return any(isinstance(c, bool) for c in color)
    if isinstance(color, str):
        return color.startswith('g') and not fullmatch(CANON_GRAY, color)
    return False


def code(color, is_bg):
    return ("4" if is_bg else "3") + denote(color)


def codes(color, bg_color, bold, faint, underline, blink, crossed, no_color):
    out = []
    if no_color:
        return out
    if color is not None:
        out.append(code(color, False))
    if bg_color is not None:
        out.append(code(bg_color, True))
    if bold:
        out.append("1")
    if faint:
        out.append("2")
    if underline:
        out.append("4")
    if blink:
        out.append("5")
    if crossed:
        out.append("9")
    return out


def shape(cs):
    if not cs:
        return ("", "")
    return (ESC + "[" + ";".join(cs) + "m", ESC + "[0m")


def ok_color(c):
    return c is None or denote(c) is not None


def strippable(s):
    """every non-empty emitted sequence is one word of the language of the strip pattern"""
    return s == "" or fullmatch(R, s)


def render(chunks):
    out = ""
    for ch in chunks:
        out = out + ch.c_prefix + ch.text + ch.c_suffix
    return out


def plain(chunks):
    out = ""
    for ch in chunks:
        out = out + ch.text
    return out


def re_sub_empty(pattern, text):
    """library (assumed): re.sub(pattern, '', text)"""
    return re.sub(pattern, "", text)


# regex lemmas about the pattern read from the code (closed facts about L(R))
def esc_anchored(w):
    """w starts with ESC and contains no other ESC (symbolic model: the same set as a regular expression)"""
    return w[:1] == ESC and ESC not in w[1:]


def lemma_esc_anchored(w):
    """every word of L(R) starts with ESC and contains no other ESC"""
    return esc_anchored(w)


def lemma_prefix_free(v, w):
    """no word of L(R) is a proper prefix of another: a match found at the start of an emitted
    sequence is the whole sequence"""
    return implies(w.startswith(v), v == w)


COLOR_KINDS = T.one_of(
    T.str, T.int, T.bool, T.none, T.float, T.const(b'RED'),
    T.tuple(T.int, T.int, T.int), T.list(T.int, T.int, T.int),
    T.tuple(T.int, T.int), T.tuple(), T.tuple(T.int, T.int, T.int, T.int),
    T.tuple(T.int, T.str, T.int), T.tuple(T.none, T.int, T.int), T.tuple(T.bool, T.int, T.int),
    T.list(T.int, T.int), T.dict({}), T.dict({'r': T.int}))
# colours passed through make(): the strict ones (lenient values are covered by _make_seq_element)
STRICT_COLOR = T.one_of(T.none, T.str, T.int, T.tuple(T.int, T.int, T.int), T.float)
STRICT_BG = T.one_of(T.none, T.str, T.int, T.tuple(T.int, T.int))
FLAG = T.one_of(T.none, T.bool)

G = globals()
M = 'ak.color'
ME = __name__
CHUNK = lambda: T.obj('ak.color:_CHTextChunk', c_prefix=T.str, text=T.str, c_suffix=T.str)   # noqa

def _make_result_spec(bound):
    """result of make() at a call site: a pair of str, or of bytes when make_bytes is set"""
    if bound.get('make_bytes') is True:
        def mk(I, name):
            from pyvc.values import SBytes
            return (SBytes(T.str.make(I, name + '.0')), SBytes(T.str.make(I, name + '.1')))
        return T.custom('bytes pair', mk)
    if bound.get('make_bytes') is False:
        return T.tuple(T.str, T.str)
    raise ValueError("make_bytes must be concrete at call sites")


_MAKE_REQ = ["not lenient(color)", "not lenient(bg_color)"]
_ARGS = "color, bg_color, bold, faint, underline, blink, crossed, no_color"

CONTRACTS = [
    Contract(M, '_ColorSequences._make_seq_element', prop=PROP, spec_globals=G, level='top',
             params={'cls': T.cls('ak.color:_ColorSequences'), 'color': COLOR_KINDS, 'is_bg': T.bool},
             ensures={'value': "denote(color) is not None and result == code(color, is_bg)"},
             raises={'invalid': ((ValueError,), "denote(color) is None or lenient(color)")},
             result_spec=T.str,
             call_raises=[(ValueError, "denote(color) is None")]),
    Contract(M, '_ColorSequences.make', prop=PROP, spec_globals=G, level='top',
             params={'cls': T.cls('ak.color:_ColorSequences'), 'color': STRICT_COLOR, 'bg_color': STRICT_BG,
                     'bold': FLAG, 'faint': T.bool, 'underline': T.bool, 'blink': T.bool, 'crossed': T.bool,
                     'no_color': T.bool, 'make_bytes': T.bool},
             requires=_MAKE_REQ,
             ensures={
                 'shape': f"implies(not make_bytes, result == shape(codes({_ARGS})))",
                 'bytes': f"implies(make_bytes, result == (shape(codes({_ARGS}))[0].encode(), "
                          f"shape(codes({_ARGS}))[1].encode()))",
                 'no_color': "implies(no_color, not result[0] and not result[1])",
                 'valid_args': "no_color or (ok_color(color) and ok_color(bg_color))",
             },
             raises={'invalid': ((ValueError,), "not no_color and not (ok_color(color) and ok_color(bg_color))")},
             result_spec=_make_result_spec,
             call_raises=[(ValueError, "not no_color and not (ok_color(color) and ok_color(bg_color))")],
             max_paths=20000),
    # --- strippability, compositionally: every sequence element is a word over digits and ':'
    # (proved on _make_seq_element for all colour kinds), and any ';'-joined list of such words between
    # ESC[ and m is a word of the strip pattern read from the code (proved on make with the elements opaque)
    Contract(M, '_ColorSequences._make_seq_element', name='_ColorSequences._make_seq_element/alphabet',
             prop=PROP, spec_globals=G, level='top',
             params={'cls': T.cls('ak.color:_ColorSequences'), 'color': COLOR_KINDS, 'is_bg': T.bool},
             ensures={'element_alphabet': "fullmatch(ELEM_RE, result)"},
             raises={'any': ((Exception,), None)},
             result_spec=T.str, call_raises=[(ValueError, 'MAY')]),
    Contract(M, '_ColorSequences.make', name='_ColorSequences.make/strippable',
             prop=PROP, spec_globals=G, level='top',
             params={'cls': T.cls('ak.color:_ColorSequences'),
                     'color': T.one_of(T.none, T.opaque('colour')), 'bg_color': T.one_of(T.none, T.opaque('colour')),
                     'bold': FLAG, 'faint': T.bool, 'underline': T.bool, 'blink': T.bool, 'crossed': T.bool,
                     'no_color': T.bool, 'make_bytes': T.const(False)},
             ensures={'strippable_prefix': "strippable(result[0])",
                      'strippable_suffix': "strippable(result[1])"},
             raises={'any': ((ValueError,), None)}),
    Contract(M, 'ColorFmt.__init__', prop=PROP, spec_globals=G, level='top',
             params={'self': T.obj('ak.color:ColorFmt'), 'color': STRICT_COLOR, 'bg_color': T.one_of(T.none, T.int),
                     'bold': FLAG, 'faint': T.bool, 'underline': T.bool, 'blink': T.bool, 'crossed': T.bool,
                     'no_color': T.bool},
             requires=_MAKE_REQ,
             ensures={'fields': f"(self._color_prefix, self._color_suffix) == shape(codes({_ARGS}))"},
             raises={'invalid': ((ValueError,), "not no_color and not (ok_color(color) and ok_color(bg_color))")},
             modifies=['self._color_prefix', 'self._color_suffix'],
             havoc={'self._color_prefix': T.str, 'self._color_suffix': T.str}, result_spec=T.none,
             call_raises=[(ValueError, "not no_color and not (ok_color(color) and ok_color(bg_color))")]),
    Contract(M, 'ColorFmt.__call__', prop=PROP, spec_globals=G, level='top',
             params={'self': T.obj('ak.color:ColorFmt', _color_prefix=T.str, _color_suffix=T.str), 'text': T.str},
             ensures={'chunk': "result.c_prefix == self._color_prefix and result.text == text "
                               "and result.c_suffix == self._color_suffix"},
             raises={}, modifies=[]),
    Contract(M, 'ColorBytes.__init__', prop=PROP, spec_globals=G, level='top',
             params={'self': T.obj('ak.color:ColorBytes'), 'color': STRICT_COLOR, 'bg_color': T.one_of(T.none, T.int),
                     'bold': FLAG, 'faint': T.bool, 'underline': T.bool, 'blink': T.bool, 'crossed': T.bool,
                     'no_color': T.bool},
             requires=_MAKE_REQ,
             ensures={'fields': f"(self._color_prefix, self._color_suffix) == "
                                f"(shape(codes({_ARGS}))[0].encode(), shape(codes({_ARGS}))[1].encode())"},
             raises={'invalid': ((ValueError,), "not no_color and not (ok_color(color) and ok_color(bg_color))")}),
    Contract(M, '_CHTextChunk.__str__', prop=PROP, spec_globals=G, level='top',
             params={'self': CHUNK()},
             ensures={'chunk_str': "result == self.c_prefix + self.text + self.c_suffix"},
             raises={}, modifies=[]),
    Contract(M, 'CHText.__str__', prop=PROP, spec_globals=G, level='top',
             params={'self': T.one_of(*[T.obj('ak.color:CHText', scrlen=T.int, chunks=T.list(*[CHUNK() for _ in range(n)]))
                                        for n in range(4)])},
             ensures={'chtext_str': "result == render(self.chunks)"},
             raises={}, modifies=[],
             note="bounded-symbolic: 0..3 chunks with fully symbolic contents (labelled bounded, not counted as proved)"),
    Contract(M, 'CHText.plain_text', prop=PROP, spec_globals=G, level='top',
             params={'self': T.one_of(*[T.obj('ak.color:CHText', scrlen=T.int, chunks=T.list(*[CHUNK() for _ in range(n)]))
                                        for n in range(4)])},
             ensures={'plain_text': "result == plain(self.chunks)"},
             raises={}, modifies=[],
             note="bounded-symbolic: 0..3 chunks with fully symbolic contents (labelled bounded, not counted as proved)"),
    # the same two statements for texts with ANY number of chunks (folds of contracts/c08_chtext.py: the generator
    # expressions of the code are the folds `rendered` / `plain` exactly when their element expressions agree)
    Contract(M, 'CHText.__str__', name='CHText.__str__/any_length', prop=PROP, spec_globals=G, level='top',
             params={'self': T.one_of(_c08.ANYTEXT())},
             ensures={'chtext_str': "result == render(self.chunks)"},
             symlist_models={'render': _c08.FOLD_MODELS['rendered'], 'plain': _c08.FOLD_MODELS['plain']},
             raises={}, modifies=[]),
    Contract(M, 'CHText.plain_text', name='CHText.plain_text/any_length', prop=PROP, spec_globals=G, level='top',
             params={'self': T.one_of(_c08.ANYTEXT())},
             ensures={'plain_text': "result == plain(self.chunks)"},
             symlist_models={'render': _c08.FOLD_MODELS['rendered'], 'plain': _c08.FOLD_MODELS['plain']},
             raises={}, modifies=[]),
    Contract(M, 'CHText.strip_colors', prop=PROP, spec_globals=G, level='top',
             params={'cls': T.cls('ak.color:CHText'), 'text': T.str},
             ensures={'strip_is_sub': "result == re_sub_empty(R, text)"},
             raises={}),
    Contract(ME, 'lemma_esc_anchored', prop=PROP, spec_globals=G, level='top', kind='lemma',
             params={'w': T.str}, requires=["fullmatch(R, w, exact=False)"],
             ensures={'esc_anchored': "result"}, raises={}),
    Contract(ME, 'lemma_prefix_free', prop=PROP, spec_globals=G, level='top', kind='lemma',
             params={'v': T.str, 'w': T.str}, requires=["fullmatch(R, v, exact=False)", "fullmatch(R, w, exact=False)"],
             ensures={'prefix_free': "result"}, raises={}),
]

BOUNDED_SYMBOLIC = {'CHText.__str__': 3, 'CHText.plain_text': 3}

USES = {
    '_ColorSequences.make': ['_ColorSequences._make_seq_element'],
    '_ColorSequences.make/strippable': ['_ColorSequences._make_seq_element/alphabet'],
    'ColorFmt.__init__': ['_ColorSequences.make'],
    'ColorBytes.__init__': ['_ColorSequences.make'],
}

ASSUMED_LIBRARY = [
    "re.compile / re.sub: re.sub(R, '', text) removes the leftmost non-overlapping matches of R (python re); "
    "together with the discharged lemmas (every emitted sequence is one word of L(R); words of L(R) start with ESC, "
    "contain no other ESC and are prefix-free) this gives strip_colors(str(x)) == x.plain_text() for ESC-free texts",
    "ECMA-48 / ITU-T T.416 meaning of SGR parameters 3x/4x, 38:5:n / 48:5:n, 1 2 4 5 9 and 0 (reset)",
    "python's \\d in a str pattern: ASCII digits are used for 'emitted word is matched' (under-approximation), "
    "ASCII digits + all non-ASCII characters for facts about every word of L(R) (over-approximation)",
    "int(s) for the text after 'g': plain decimal digits are modelled exactly; the lenient literal forms "
    "(sign, white space, '_', non-ASCII digits) are outside the model (bounded tier covers them)",
]


def lib_models():
    import z3
    from pyvc.values import SStr, Sq, is_strlike
    from pyvc.ops import str_z3, bool_value, Unsupported
    from pyvc import regex
    from pyvc.models import RePattern
    from pyvc.values import MAXCODE

    _sub = z3.Function('re_sub_empty', z3.StringSort(), z3.StringSort(), z3.StringSort())

    def m_re_sub_empty(I, args, kwargs):
        pattern, text = args
        if isinstance(pattern, RePattern):
            pattern = pattern.pattern
        if not isinstance(pattern, str):
            raise Unsupported("re.sub with a symbolic pattern")
        return SStr([Sq(_sub(z3.StringVal(pattern), str_z3(text)))])

    def m_re_compile(I, args, kwargs):
        if len(args) != 1 or kwargs or not isinstance(args[0], str):
            raise Unsupported("re.compile form")
        return RePattern(args[0])

    def m_re_sub(I, args, kwargs):
        pattern, repl, text = args
        if repl != "" or kwargs:
            raise Unsupported("re.sub with a non-empty replacement")
        return m_re_sub_empty(I, [pattern, text], {})

    def m_esc_anchored(I, args, kwargs):
        # regular-expression form of:  w[:1] == ESC and ESC not in w[1:]
        (w,) = args
        esc = regex._ch(27)
        notesc = z3.Intersect(regex._range(0, MAXCODE), z3.Complement(esc))
        return bool_value(z3.InRe(str_z3(w), z3.Concat(esc, z3.Star(notesc))))

    return {re_sub_empty: m_re_sub_empty, re.compile: m_re_compile, re.sub: m_re_sub,
            esc_anchored: m_esc_anchored}


RECIPES = {
    'ak.color:ColorFmt': lambda f: _mk(akc.ColorFmt, f),
    'ak.color:ColorBytes': lambda f: _mk(akc.ColorBytes, f),
    'ak.color:CHText': lambda f: _mk(akc.CHText, f),
    'ak.color:_CHTextChunk': lambda f: akc._CHTextChunk(f['c_prefix'], f['text'], f['c_suffix']),
}


def _mk(cls, fields):
    o = object.__new__(cls)
    for k, v in fields.items():
        object.__setattr__(o, k, v)
    return o


_CS = {'__type__': 'ak.color:_ColorSequences'}
SAMPLES = {
    '_ColorSequences._make_seq_element': [{'cls': _CS, 'color': c, 'is_bg': b} for b in (False, True) for c in (
        'RED', 'WHITE', 'red', 'g0', 'g23', 'g24', 'gx', 'g', 0, 255, 256, -1, 1.5, None,
        {'__tuple__': [0, 0, 0]}, {'__tuple__': [5, 5, 5]}, {'__tuple__': [6, 0, 0]}, {'__tuple__': [1, 2]},
        {'__tuple__': [1, 'a', 2]}, [1, 2, 3])],
    '_ColorSequences.make': [dict(cls=_CS, color=c, bg_color=bg, bold=bo, faint=False, underline=True, blink=False,
                                  crossed=None, no_color=nc, make_bytes=mb)
                             for c in ('GREEN', 17, None, {'__tuple__': [1, 2, 3]}, 'nope') for bg in (None, 'g5')
                             for bo in (None, True) for nc in (False, True) for mb in (False, True)],
    '_CHTextChunk.__str__': [{'self': {'__class__': 'ak.color:_CHTextChunk',
                                       'fields': {'c_prefix': '\x1b[31m', 'text': 'abc', 'c_suffix': '\x1b[0m'}}}],
}

CANARIES = [
    {'name': 'rgb_wrong_weight', 'module': M, 'function': '_ColorSequences._make_seq_element',
     'old': 'color = 16 + r * 36 + g * 6 + b', 'new': 'color = 16 + r * 36 + g * 6 + b + 1',
     'expect': 'C09._ColorSequences._make_seq_element.value'},
    {'name': 'gray_offset', 'module': M, 'function': '_ColorSequences._make_seq_element',
     'old': 'color = 232 + shade', 'new': 'color = 231 + shade',
     'expect': 'C09._ColorSequences._make_seq_element.value'},
    {'name': 'no_reset_suffix', 'module': M, 'function': '_ColorSequences.make',
     'old': 'color_suffix = "\\033[0m"', 'new': 'color_suffix = "\\033[m0"',
     'combos': ['color:int', 'bg_color:none', 'bold:none'],
     'expect': 'C09._ColorSequences.make.shape'},
    {'name': 'chunk_str_drops_suffix', 'module': M, 'function': '_CHTextChunk.__str__',
     'old': '{self.c_suffix}', 'new': '', 'expect': 'C09._CHTextChunk.__str__.chunk_str'},
]
