"""C06 - proved sub-obligations: the ordering of branch names (numeric-aware, used to sort release branches)
and of build numbers is a total pre-order (antisymmetric in sign, transitive) - bounded-symbolic over item
lists of length <= 2 with symbolic ints and strings.  The report itself is decided by harness/c06.py."""
from pyvc.contract import Contract, T
from pyvc.speclib import implies
from ak import ghist

PROP = 'C06'
M = 'ak.ghist'
ME = __name__
G = globals()


def sign(x):
    return 1 if x > 0 else (-1 if x < 0 else 0)


def lemma_branch_antisym(a, b):
    return sign(a.cmp(b)) == -sign(b.cmp(a))


def lemma_branch_trans(a, b, c):
    return implies(a.cmp(b) <= 0 and b.cmp(c) <= 0, a.cmp(c) <= 0)


def lemma_numbers_before_words(a, b):
    """an int item sorts before a string item at the same position ('release/9' < 'release/x')"""
    return a.cmp(b) < 0


def lemma_numeric_not_lexicographic(a, b, x, y):
    """items that are numbers compare as numbers: 10 after 9"""
    return implies(x < y, a.cmp(b) < 0)


def BR(*items):
    return T.obj('ak.ghist:BranchName', name=T.str, _sort_items=T.list(*items))


_ITEMS = [(), (T.int,), (T.str,), (T.str, T.int), (T.str, T.str), (T.int, T.int)]
BRS = T.one_of(*[BR(*it) for it in _ITEMS])
BRS_SMALL = T.one_of(*[BR(*it) for it in _ITEMS[:4]])


def BN(major, minor, patch, build):
    return T.obj('ak.ghist:BuildNumData', major=major, minor=minor, patch=patch, build=build, branch_str=T.none,
                 version_name=T.none)


OPT = T.one_of(T.int, T.none)


def lemma_buildnum_antisym(a, b):
    return sign(a.cmp(b)) == -sign(b.cmp(a))


CONTRACTS = [
    Contract(ME, 'lemma_branch_antisym', prop=PROP, spec_globals=G, level='sup', kind='lemma',
             params={'a': BRS, 'b': BRS}, ensures={'antisymmetric': "result"}, raises={}),
    Contract(ME, 'lemma_branch_trans', prop=PROP, spec_globals=G, level='sup', kind='lemma',
             params={'a': BRS_SMALL, 'b': BRS_SMALL, 'c': BRS_SMALL}, ensures={'transitive': "result"}, raises={},
             max_paths=20000),
    Contract(ME, 'lemma_numbers_before_words', prop=PROP, spec_globals=G, level='top', kind='lemma',
             params={'a': BR(T.str, T.int), 'b': BR(T.str, T.str)},
             requires=["a._sort_items[0] == b._sort_items[0]"],
             ensures={'numbers_before_words': "result"}, raises={}),
    Contract(ME, 'lemma_numeric_not_lexicographic', prop=PROP, spec_globals=G, level='top', kind='lemma',
             params={'a': BR(T.str, T.int), 'b': BR(T.str, T.int), 'x': T.int, 'y': T.int},
             requires=["a._sort_items[0] == b._sort_items[0]", "a._sort_items[1] == x", "b._sort_items[1] == y"],
             ensures={'numeric_aware': "result"}, raises={}),
    Contract(ME, 'lemma_buildnum_antisym', prop=PROP, spec_globals=G, level='sup', kind='lemma',
             params={'a': BN(OPT, OPT, OPT, OPT), 'b': BN(OPT, OPT, OPT, OPT)},
             ensures={'antisymmetric': "result"}, raises={}, max_paths=20000),
]

BOUNDED_SYMBOLIC = {'lemma_branch_antisym': 2, 'lemma_branch_trans': 2}
USES = {}
ASSUMED_LIBRARY = ["python orders str by code points lexicographically (SMT-LIB str.< / str.<=)"]
CANARIES = [
    {'name': 'strings_before_numbers_on_one_side_only', 'module': M, 'function': 'BranchName.cmp',
     'verify': 'lemma_branch_antisym',
     'old': "            if is_int_1:  # self must be not int\n                return 1",
     'new': "            if is_int_1:  # self must be not int\n                return -1",
     'combos': ['a:obj(BranchName:name=str,_sort_items=list(int))', 'b:obj(BranchName:name=str,_sort_items=list(str))'],
     'expect': 'C06.lemma_branch_antisym.antisymmetric'},
]
