"""C11 - proved sub-obligations on ak/ppobj.py PrettyPrinter: the text of a simple value and of a dict key in both
modes equals the JSON / Python literal of that value (for every string without quotes/backslashes, every int,
both booleans, None and the empty containers), and the ordering key used to sort dict entries.
Wrapping and nesting are decided by harness/c11.py."""
from pyvc.contract import Contract, T
from ak import ppobj, color as akc

PROP = 'C11'
M = 'ak.ppobj'
ME = __name__
G = globals()

# literal tables of the two target languages (from their definitions, not from the code)
JSON_LIT = {True: 'true', False: 'false', None: 'null'}
PY_LIT = {True: 'True', False: 'False', None: 'None'}


class StubPalette:
    """palette: the four formatters of PPPalette, each tagging its text with its kind"""

    def text(self, s):
        return akc._CHTextChunk("T", s, "")

    def keyword(self, s):
        return akc._CHTextChunk("K", s, "")

    def number(self, s):
        return akc._CHTextChunk("N", s, "")

    def name(self, s):
        return akc._CHTextChunk("M", s, "")


def literal(value, json_mode):
    """text that reads back as `value` with json.loads (json_mode) / ast.literal_eval (python mode)"""
    if isinstance(value, str):
        return '"' + value + '"'
    if value is True or value is False or value is None:
        return (JSON_LIT if json_mode else PY_LIT)[value]
    if isinstance(value, int):
        return str(value)
    if isinstance(value, dict):
        return "{}"
    return "[]"


def PP(json_mode):
    return T.obj('ak.ppobj:PrettyPrinter', _consts=T.const(ppobj.PrettyPrinter._CONSTANTS_LITERALS[1 if json_mode else 0]))


SIMPLE = T.one_of(T.str, T.bool, T.none, T.int, T.dict({}), T.list(), T.tuple())

CONTRACTS = []
for _jm in (False, True):
    CONTRACTS.append(
        Contract(M, 'PrettyPrinter._simple_val_to_ch_chunk', name=f"PrettyPrinter._simple_val_to_ch_chunk/{'json' if _jm else 'python'}",
                 prop=PROP, spec_globals=G, level='top',
                 params={'self': PP(_jm), 'cp': T.obj(ME + ':StubPalette'), 'value': SIMPLE},
                 ensures={'literal': f"result.text == literal(value, {_jm})",
                          'kind': "result.c_prefix == ('T' if isinstance(value, (str, dict, list, tuple)) else "
                                  "('K' if (value is True or value is False or value is None) else 'N'))"},
                 raises={}, modifies=[]))
CONTRACTS += [
    Contract(M, 'PrettyPrinter._dict_key_to_sc_chunk', prop=PROP, spec_globals=G, level='top',
             params={'self': PP(False), 'cp': T.obj(ME + ':StubPalette'), 'key': T.one_of(T.str, T.int)},
             ensures={'key_literal': "result.text == literal(key, False) and result.c_prefix == 'M'"},
             raises={}, modifies=[]),
    Contract(M, 'PrettyPrinter._value_is_simple', prop=PROP, spec_globals=G, level='sup',
             params={'cls': T.cls('ak.ppobj:PrettyPrinter'),
                     'value': T.one_of(T.str, T.int, T.none, T.bool, T.dict({}), T.dict({'a': T.int}), T.list(), T.list(T.int),
                                       T.tuple(), T.tuple(T.str))},
             ensures={'simple_iff_not_nonempty_container': "result == (not (isinstance(value, (list, tuple, dict)) and len(value) > 0))"},
             raises={}, modifies=[]),
    Contract(M, 'PrettyPrinter._mk_type_sort_value', prop=PROP, spec_globals=G, level='sup',
             params={'cls': T.cls('ak.ppobj:PrettyPrinter'), 'value': T.one_of(T.str, T.int, T.bool, T.none, T.tuple(T.int))},
             ensures={'numbers_then_strings_then_tuples_then_keywords':
                      "result[0] == (3 if (value is True or value is False or value is None) else "
                      "(0 if isinstance(value, int) else (1 if isinstance(value, str) else 2)))",
                      'natural_order_within_kind': "(value is True or value is False or value is None) or result[1] == value"},
             raises={}, modifies=[]),
]

BOUNDED_SYMBOLIC = {}
USES = {}
ASSUMED_LIBRARY = ["json.loads / ast.literal_eval read the literals true/false/null resp. True/False/None, decimal ints and "
                   "double-quoted strings without quote/backslash/control characters back as the same values"]
CANARIES = [
    {'name': 'empty_dict_printed_as_list', 'module': M, 'function': 'PrettyPrinter._simple_val_to_ch_chunk',
     'verify': 'PrettyPrinter._simple_val_to_ch_chunk/json',
     'old': 'return cp.text("{}")', 'new': 'return cp.text("[]")',
     'combos': ['value:dict()'], 'expect': 'C11.PrettyPrinter._simple_val_to_ch_chunk/json.literal'},
]
