"""C19 - proved sub-obligations on ak/cli_tools.py: registration of a dependent parser, propagation of an
option to every dependent exactly once, and the default-command decision of ArgParser.parse_args (the prefix up
to the hand-over to argparse).  The closure 'dependents == descendants' over whole declarations and the real
acceptance matrix are decided by the exhaustive driver harness/c19.py."""
import argparse

from pyvc.contract import Contract, T
from ak import cli_tools

PROP = 'C19'
M = 'ak.cli_tools'
ME = __name__
G = globals()


class DepParser:
    """a dependent parser: records the options it is given"""

    def __init__(self):
        self.got = []

    def add_argument(self, *args, **kwargs):
        self.got.append((args, kwargs))


def with_entry(d, k, v):
    out = dict(d)
    out[k] = v
    return out


def DEP():
    return T.obj(ME + ':DepParser', got=T.list())


def AKP(deps):
    return T.obj('ak.cli_tools:AkArgumentParser', _dependent_parsers=T.dict(deps), own=T.list())


def expected_argv(argv, commands, default):
    """arguments that do not start with a COMMAND name (or a help option) go to the default command"""
    if argv and (argv[0] in commands or argv[0] in ('-h', '--help')):
        return list(argv)
    return [default] + list(argv)


CONTRACTS = [
    Contract(M, 'AkArgumentParser.register_dependent', prop=PROP, spec_globals=G, level='sup',
             params={'self': T.one_of(AKP({}), AKP({'b': DEP()}), AKP({'b': DEP(), 'c': DEP()})),
                     'name': T.one_of(T.const('x'), T.const('b')), 'parser': DEP()},
             requires=["name not in self._dependent_parsers"],
             ensures={'registered': "self._dependent_parsers == with_entry(old(self._dependent_parsers), name, parser) "
                                    "and self._dependent_parsers[name] is parser"},
             raises={}, modifies=['self._dependent_parsers']),
    Contract(M, 'AkArgumentParser.add_argument', prop=PROP, spec_globals=G, level='top',
             params={'self': T.one_of(AKP({}), AKP({'b': DEP()}), AKP({'b': DEP(), 'c': DEP(), 'd': DEP()})),
                     'args': T.one_of(T.tuple(T.str), T.tuple(T.str, T.str)),
                     'kwargs': T.one_of(T.dict({}), T.dict({'action': T.str}), T.dict({'_propagate': T.const(False)}),
                                        T.dict({'_propagate': T.const(True), 'help': T.str}))},
             ensures={
                 'every_dependent_once': "all(len(p.got) == (0 if old(kwargs).get('_propagate', True) is False else 1) "
                                         "for p in self._dependent_parsers.values())",
                 'same_option_not_repropagated': "all(g[0] == args and g[1].get('_propagate') is False and "
                                                 "all(g[1][k] == v for k, v in old(kwargs).items() if k != '_propagate') "
                                                 "for p in self._dependent_parsers.values() for g in p.got)",
                 'own_parser_gets_it': "len(self.own) == 1 and self.own[0][0] == args and '_propagate' not in self.own[0][1]",
             },
             raises={}, modifies=['self.own', 'kwargs', 'self._dependent_parsers']),
    Contract(M, 'ArgParser.parse_args', name='ArgParser.parse_args/default_command', prop=PROP, spec_globals=G, level='top',
             body_slice={'stop_before': 'args = self.parser.parse_args(args, namespace)', 'result': 'args'},
             params={'self': T.one_of(*[T.obj('ak.cli_tools:ArgParser', parser=T.opaque('argparse'), _no_log=T.const(False),
                                              _no_log_file=T.const(False), _help_if_no_args=T.const(False),
                                              command_parsers=T.dict(cp), common_options=T.opaque('common'),
                                              default_command=T.const('run'), _commands_names=T.const(names))
                                        for cp, names in (
                                            ({'run': T.opaque('p1'), 'show': T.opaque('p2')}, ['run', 'show']),
                                            ({'opts': T.opaque('p0'), 'run': T.opaque('p1'), 'show': T.opaque('p2')},
                                             ['run', 'show']))]),
                     'args': T.one_of(T.list(), T.list(T.str), T.list(T.str, T.str), T.list(T.const('show'), T.str)),
                     'namespace': T.none},
             ensures={'default_inserted': "result == expected_argv(old(args), ('run', 'show'), 'run')"},
             raises={}, modifies=['args']),
]

BOUNDED_SYMBOLIC = {'AkArgumentParser.add_argument': 3}
USES = {}
ASSUMED_LIBRARY = ["argparse.ArgumentParser.add_argument / parse_args are library code: modelled as 'records the option' / not analysed"]


def lib_models():
    from pyvc.values import SObj, SList, SDict

    def m_argparse_add_argument(I, args, kwargs):
        target = args[0]
        if not isinstance(target, SObj):
            raise ValueError(target)
        target.fields.setdefault('own', SList([]))
        target.fields['own'].items.append((tuple(args[1:]), SDict(kwargs)))
        return None
    return {argparse.ArgumentParser.add_argument: m_argparse_add_argument}


CANARIES = [
    {'name': 'option_repropagated', 'module': M, 'function': 'AkArgumentParser.add_argument',
     'old': 'dependent_parser.add_argument(*args, _propagate=False, **kwargs)',
     'new': 'dependent_parser.add_argument(*args, **kwargs)',
     'expect': 'C19.AkArgumentParser.add_argument.same_option_not_repropagated'},
]
