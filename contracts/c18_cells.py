"""C18 - proved sub-obligations on ak/xlsread.py: conversion of one cell (CellInt, CellBool through
_CellReader.val_from_cell) and the coordinate text reported by XlsObject.get_attr_origin (simple attributes,
ranged attributes with and without a key).  Whole sheets are decided by harness/c18.py."""
from pyvc.contract import Contract, T
from ak import xlsread

PROP = 'C18'
M = 'ak.xlsread'
ME = __name__
G = globals()


class Cell:
    def __init__(self, value, coordinate):
        self.value = value
        self.coordinate = coordinate


class Obj(xlsread.XlsObject):
    _ATTRS = ['id', 'name', 'grades']
    _NUM_ID_ATTRS = 1


def CELL(value):
    return T.obj(ME + ':Cell', value=value, coordinate=T.str)


VALUES = T.one_of(T.none, T.int, T.bool, T.str, T.const(''), T.float)
NONE_VALUES = T.one_of(T.list(), T.list(T.none), T.list(T.none, T.const('')))


def is_none_value(v, none_values):
    return any(v == x for x in none_values)


def XOBJ(origins):
    return T.obj(ME + ':Obj', _src_ws_name=T.str, _anchor_cell_coord=T.str, _attrs_origins=T.dict(origins), logic_id=T.int)


CONTRACTS = [
    Contract(M, '_CellReader.val_from_cell', name='CellInt.val_from_cell', prop=PROP, spec_globals=G, level='sup',
             params={'self': T.obj('ak.xlsread:CellInt', none_values=NONE_VALUES), 'cell': CELL(VALUES)},
             ensures={'int_cell': "(is_none_value(cell.value, self.none_values) and result is None) or "
                                  "(not is_none_value(cell.value, self.none_values) and isinstance(cell.value, int) "
                                  "and result == cell.value)"},
             raises={'not_an_int': ((ValueError,), "not is_none_value(cell.value, self.none_values) and "
                                                   "not isinstance(cell.value, int)")},
             modifies=[]),
    Contract(M, '_CellReader.val_from_cell', name='CellBool.val_from_cell', prop=PROP, spec_globals=G, level='sup',
             params={'self': T.obj('ak.xlsread:CellBool', none_values=T.list(),
                                   true_values=T.const({'v', 1, '1', True, 'True'}),
                                   false_values=T.const({None, '', False, 'False'})),
                     'cell': CELL(T.one_of(T.none, T.bool, T.const('v'), T.const(''), T.const('1'), T.const('x'), T.const(1),
                                           T.const(0), T.const(2)))},
             ensures={'bool_cell': "result == (cell.value in ('v', 1, '1', True, 'True'))"},
             raises={'not_a_bool': ((ValueError,), "cell.value not in ('v', 1, '1', True, 'True') and "
                                                   "cell.value not in (None, '', False, 'False')")},
             modifies=[]),
    Contract(M, 'XlsObject.get_attr_origin', name='XlsObject.get_attr_origin/simple', prop=PROP, spec_globals=G,
             level='top',
             params={'self': T.one_of(XOBJ({'id': T.str, 'name': T.str}), XOBJ({'id': T.str})),
                     'attr_name': T.one_of(T.const('id'), T.const('name')), 'range_key': T.none,
                     'incl_ws': T.bool, 'strict': T.const(True)},
             ensures={'reported_origin': "result == ((self._src_ws_name + ' ') if incl_ws else '') + "
                                         "(self._attrs_origins[attr_name] if attr_name in self._attrs_origins "
                                         "else '<skipped column>')"},
             raises={}, modifies=[]),
    Contract(M, 'XlsObject.get_attr_origin', name='XlsObject.get_attr_origin/ranged', prop=PROP, spec_globals=G,
             level='top',
             params={'self': T.one_of(XOBJ({'id': T.str, 'grades': T.dict({})}),
                                      XOBJ({'id': T.str, 'grades': T.dict({'math': T.str})}),
                                      XOBJ({'id': T.str, 'grades': T.dict({'zoo': T.str, 'art': T.str, 'math': T.str})})),
                     'attr_name': T.const('grades'),
                     'range_key': T.one_of(T.none, T.const('math'), T.const('nope')),
                     'incl_ws': T.const(False), 'strict': T.bool},
             ensures={
                 'whole_range_in_column_order': "range_key is not None or result == range_text(list(self._attrs_origins['grades'].values()))",
                 'keyed_origin': "range_key is None or result == (self._attrs_origins['grades'][range_key] "
                                 "if range_key in self._attrs_origins['grades'] else 'n/a')",
             },
             raises={'unknown_key': ((ValueError,), "strict and range_key is not None and "
                                                    "range_key not in self._attrs_origins['grades']")},
             modifies=[]),
]


def range_text(coords):
    """first and last cell in SHEET (column) order, as recorded"""
    if not coords:
        return "<skipped column>"
    if len(coords) == 1:
        return coords[0]
    return coords[0] + ":" + coords[-1]


BOUNDED_SYMBOLIC = {'XlsObject.get_attr_origin/ranged': 3}
USES = {}
ASSUMED_LIBRARY = []
CANARIES = [
    {'name': 'range_ends_swapped', 'module': M, 'function': 'XlsObject.get_attr_origin',
     'verify': 'XlsObject.get_attr_origin/ranged',
     'old': 'cells_range_descr = f"{cells_coords[0]}:{cells_coords[-1]}"',
     'new': 'cells_range_descr = f"{cells_coords[-1]}:{cells_coords[0]}"',
     'combos': ["'zoo'", 'range_key:none'],
     'expect': 'C18.XlsObject.get_attr_origin/ranged.whole_range_in_column_order'},
]
