"""C14 - syntax colours resolve by inheritance (proved core: _ColorConfColorDescr.resolve, ColorsConfig.get_color).
The registration loop of add_new_items is decided by the exhaustive small-scope driver (harness/c14.py)."""
from pyvc.contract import Contract, T
from pyvc.speclib import implies, iff
from ak import color as akc
from contracts.c09_color_seq import denote, lenient, codes, shape, ok_color, code, NAME_IDX, gray_level, CANON_GRAY, \
    ELEM_RE, ESC, fullmatch   # noqa  (spec functions of C09, reused: the formatter is ColorFmt)

PROP = 'C14'
M = 'ak.color'
G = globals()


def dflt(c):
    """'' and '-' select the terminal default"""
    return None if c == "" or c == "-" else c


def own_or_inherited(own, parent_value):
    """own colour overrides the referenced syntax's; unspecified ('') inherits; '-' = terminal default"""
    if own == "":
        return parent_value
    return dflt(own)


def merged(parent_mods, own_mods):
    out = dict(parent_mods)
    out.update(own_mods)
    return out


def mod(mods, name):
    return mods.get(name)


def expected_fmt(fg, bg, mods, no_color):
    return shape(codes(fg, bg, mod(mods, 'bold'), mod(mods, 'faint'), mod(mods, 'underline'),
                       mod(mods, 'blink'), mod(mods, 'crossed'), no_color))


def fmt_pair(color_fmt):
    return (color_fmt._color_prefix, color_fmt._color_suffix)


def valid_own(c):
    """syntactically valid own colour of a description: '', '-', or a colour ColorFmt accepts strictly"""
    return c == "" or c == "-" or (denote(c) is not None and not lenient(c))


def valid_resolved(c):
    return c is None or (denote(c) is not None and not lenient(c))


OWN_COLOR = T.one_of(T.const(""), T.const("-"), T.str, T.int, T.tuple(T.int, T.int, T.int))
OWN_BG = T.one_of(T.const(""), T.const("-"), T.int)
RES_COLOR = T.one_of(T.none, T.str, T.int)
RES_BG = T.one_of(T.none, T.int)
MODS = T.one_of(T.dict({}), T.dict({'bold': T.bool, 'crossed': T.bool}))
PMODS = T.one_of(T.dict({}), T.dict({'bold': T.bool, 'blink': T.bool}))
FMT = T.obj('ak.color:ColorFmt', _color_prefix=T.str, _color_suffix=T.str)


def DESCR(fg, bg, mods, parent_id, color_fmt):
    return T.obj('ak.color:_ColorConfColorDescr', synt_id=T.str, init_str=T.str, src_obj_name=T.str,
                 fg_color=fg, bg_color=bg, modifiers=mods, parent_syntax_id=parent_id, color_fmt=color_fmt)


CONTRACTS = [
    # with a parent
    Contract(M, '_ColorConfColorDescr.resolve', name='_ColorConfColorDescr.resolve/with_parent', prop=PROP,
             spec_globals=G, level='top',
             params={'self': DESCR(OWN_COLOR, OWN_BG, MODS, T.str, T.none),
                     'parent': DESCR(RES_COLOR, RES_BG, PMODS, T.none, FMT),
                     'no_color': T.bool},
             requires=["valid_own(self.fg_color)", "valid_own(self.bg_color)",
                       "valid_resolved(parent.fg_color)", "valid_resolved(parent.bg_color)"],
             ensures={
                 'inherit_fg': "self.fg_color == own_or_inherited(old(self.fg_color), parent.fg_color)",
                 'inherit_bg': "self.bg_color == own_or_inherited(old(self.bg_color), parent.bg_color)",
                 'modifiers': "self.modifiers == merged(parent.modifiers, old(self.modifiers))",
                 'formatter': "(no_color and self.color_fmt is NO_EFFECTS) or (not no_color and fmt_pair(self.color_fmt) == "
                              "expected_fmt(self.fg_color, self.bg_color, self.modifiers, False))",
                 'parent_untouched': "parent.fg_color == old(parent.fg_color) and parent.bg_color == old(parent.bg_color) "
                                     "and parent.modifiers == old(parent.modifiers) and parent.color_fmt is old(parent.color_fmt)",
             },
             raises={}, max_paths=20000),
    # without a parent
    Contract(M, '_ColorConfColorDescr.resolve', name='_ColorConfColorDescr.resolve/no_parent', prop=PROP,
             spec_globals=G, level='top',
             params={'self': DESCR(OWN_COLOR, OWN_BG, MODS, T.none, T.none),
                     'parent': T.none, 'no_color': T.bool},
             requires=["valid_own(self.fg_color)", "valid_own(self.bg_color)"],
             ensures={
                 'default_fg': "self.fg_color == dflt(old(self.fg_color))",
                 'default_bg': "self.bg_color == dflt(old(self.bg_color))",
                 'modifiers': "self.modifiers == old(self.modifiers)",
                 'formatter': "(no_color and self.color_fmt is NO_EFFECTS) or (not no_color and fmt_pair(self.color_fmt) == "
                              "expected_fmt(self.fg_color, self.bg_color, self.modifiers, False))",
             },
             raises={}, max_paths=20000),
    Contract(M, 'ColorsConfig.get_color', prop=PROP, spec_globals=G, level='top',
             params={'self': T.one_of(*[T.obj('ak.color:ColorsConfig', no_color=T.bool, syntax_map=T.dict(m))
                                        for m in (
                                            {},
                                            {'A': DESCR(RES_COLOR, T.none, T.dict({}), T.none, FMT)},
                                            {'A': DESCR(RES_COLOR, T.none, T.dict({}), T.str, T.none)},
                                            {'TEXT': DESCR(RES_COLOR, T.none, T.dict({}), T.none, FMT)},
                                            {'A': DESCR(RES_COLOR, T.none, T.dict({}), T.str, T.none),
                                             'TEXT': DESCR(RES_COLOR, T.none, T.dict({}), T.none, FMT)},
                                            {'A': DESCR(RES_COLOR, T.none, T.dict({}), T.none, FMT),
                                             'TEXT': DESCR(RES_COLOR, T.none, T.dict({}), T.str, T.none)},
                                        )]),
                     'synt_id': T.one_of(T.const('A'), T.const('UNKNOWN'), T.const('TEXT'))},
             requires=["DFLT_ID == 'TEXT'"],
             ensures={
                 'known_resolved': "not (synt_id in self.syntax_map and self.syntax_map[synt_id].color_fmt is not None) "
                                   "or result is self.syntax_map[synt_id].color_fmt",
                 'known_unresolved_stays_uncoloured': "not (synt_id in self.syntax_map and "
                                                      "self.syntax_map[synt_id].color_fmt is None) or result is NO_EFFECTS",
                 'unknown_falls_back_to_default_text': "synt_id in self.syntax_map or result is "
                                                       "(self.syntax_map['TEXT'].color_fmt if 'TEXT' in self.syntax_map and "
                                                       "self.syntax_map['TEXT'].color_fmt is not None else NO_EFFECTS)",
             },
             raises={}, modifies=[]),
]

NO_EFFECTS = akc.ColorsConfig._NO_EFFECTS_FMT
DFLT_ID = akc.ColorsConfig.DFLT_SYNTAX_ID

USES = {
    '_ColorConfColorDescr.resolve/with_parent': ['ColorFmt.__init__'],
    '_ColorConfColorDescr.resolve/no_parent': ['ColorFmt.__init__'],
}
EXTERNAL_CONTRACTS = {'contracts.c09_color_seq': ['ColorFmt.__init__']}

ASSUMED_LIBRARY = []

BOUNDED_SYMBOLIC = {}

CANARIES = [
    {'name': 'dash_not_mapped', 'module': M, 'function': '_ColorConfColorDescr.resolve',
     'verify': '_ColorConfColorDescr.resolve/with_parent',
     'old': 'elif self.fg_color == "-":\n                self.fg_color = None', 'new': 'elif self.fg_color == "--":\n                self.fg_color = None',
     'combos': ["fg_color=const('-')", "bg_color=const('')", "modifiers=dict()"],
     'expect': 'C14._ColorConfColorDescr.resolve/with_parent.inherit_fg'},
    {'name': 'modifiers_parent_wins', 'module': M, 'function': '_ColorConfColorDescr.resolve',
     'verify': '_ColorConfColorDescr.resolve/with_parent',
     'old': '{**parent.modifiers, **self.modifiers}', 'new': '{**self.modifiers, **parent.modifiers}',
     'combos': ["fg_color=const('')", "bg_color=const('')", "'crossed'"],
     'expect': 'C14._ColorConfColorDescr.resolve/with_parent.modifiers'},
]
