"""C20 - short uuid strings are a bijective encoding of UUIDs.  Contracts on ak/short_uuid.py."""
import uuid

from pyvc.contract import Contract, T
from pyvc.speclib import implies, iff
from ak import short_uuid

PROP = 'C20'
def _observed_alphabet():
    """the digits of the encoding, in value order.  Taken from the module when it names them (`_ALPHABET`); otherwise
    observed through the public encoder (digit d is the first character of the encoding of the value d), so that a
    refactoring of the module's private names cannot break the contract module itself"""
    a = getattr(short_uuid, '_ALPHABET', None)
    if a is not None and len(a) > 1:
        return list(a)
    return [short_uuid.uuid_to_short_str(uuid.UUID(int=d))[0] for d in range(57)]


A = _observed_alphabet()
IDX = {c: i for i, c in enumerate(A)}       # the spec's own index (never the module's table)
N = getattr(short_uuid, '_SHORT_GUID_LEN', 22)
BASE = len(A)


def H(s):
    """Horner value of a short string, little endian: sum IDX[s[i]] * BASE**i"""
    h = 0
    for ch in reversed(s):
        h = h * BASE + IDX[ch]
    return h


def in_alphabet(s):
    return all(c in IDX for c in s)


def valid_short(s):
    return isinstance(s, str) and len(s) == N and in_alphabet(s) and H(s) < 2 ** 128


def lib_accepts(s):
    """does uuid.UUID(s) accept the string (library behaviour, assumed)"""
    try:
        uuid.UUID(s)
        return True
    except ValueError:
        return False


def lib_int(s):
    return uuid.UUID(s).int


# lemmas: functions over the contracted functions only (verified modularly)
def lemma_roundtrip(n):
    u = uuid.UUID(int=n)
    s = short_uuid.uuid_to_short_str(u)
    r = short_uuid.uuid_from_short_str(s)
    return r.int


def lemma_injective(a, b):
    sa = short_uuid.uuid_to_short_str(uuid.UUID(int=a))
    sb = short_uuid.uuid_to_short_str(uuid.UUID(int=b))
    return (sa == sb, a == b)


def lemma_both_forms(n):
    """uuid_from_str accepts the short form produced by the encoder"""
    s = short_uuid.uuid_to_short_str(uuid.UUID(int=n))
    return short_uuid.uuid_from_str(s).int


UUID_T = T.obj('uuid:UUID', int=T.int_range(0, 2 ** 128 - 1))
G = globals()
M = 'ak.short_uuid'
ME = __name__

CONTRACTS = [
    Contract(M, '_int_to_str', prop=PROP, spec_globals=G, level='top',
             params={'number': T.int},
             requires=["0 <= number < 2**128"],
             unwind={0: 22},
             ensures={'len22': "len(result) == N",
                      'alphabet': "in_alphabet(result)",
                      'value': "H(result) == number"},
             raises={},
             result_spec=T.str,
             note="loop route: unwinding 22 with discharged unwinding assertion (2**128 < 57**22)"),
    Contract(M, '_str_to_int', prop=PROP, spec_globals=G, level='sup',
             params={'string': T.str},
             requires=["len(string) == N"],
             ensures={'value': "in_alphabet(string) and result == H(string)"},
             raises={'foreign_letter': ((KeyError,), "not in_alphabet(string)")},
             result_spec=T.int,
             call_raises=[(KeyError, "not in_alphabet(string)")]),
    Contract(M, 'uuid_to_short_str', prop=PROP, spec_globals=G, level='top',
             params={'uuid_obj': UUID_T},
             ensures={'len22': "len(result) == N",
                      'alphabet': "in_alphabet(result)",
                      'value': "H(result) == uuid_obj.int"},
             raises={}, result_spec=T.str, modifies=[]),
    Contract(M, 'uuid_from_short_str', prop=PROP, spec_globals=G, level='top',
             params={'uuid_short_str': T.one_of(T.str, T.int, T.none, T.bool, T.float,
                                                T.tuple(T.str), T.list(T.str), T.const(b'x' * 22))},
             ensures={'accepts': "valid_short(uuid_short_str) and result.int == H(uuid_short_str)"},
             raises={'raises_only_ValueError': ((ValueError,), "not valid_short(uuid_short_str)")},
             result_spec=UUID_T,
             call_raises=[(ValueError, "not valid_short(uuid_short_str)")]),
    Contract(M, 'uuid_from_str', prop=PROP, spec_globals=G, level='top',
             params={'uuid_str': T.str},
             ensures={'canonical_or_short':
                      "(lib_accepts(uuid_str) and result.int == lib_int(uuid_str)) or "
                      "(not lib_accepts(uuid_str) and valid_short(uuid_str) and result.int == H(uuid_str))"},
             raises={'raises_only_ValueError':
                     ((ValueError,), "not lib_accepts(uuid_str) and not valid_short(uuid_str)")},
             result_spec=UUID_T,
             call_raises=[(ValueError, "not lib_accepts(uuid_str) and not valid_short(uuid_str)")]),
    Contract(ME, 'lemma_roundtrip', prop=PROP, spec_globals=G, level='top', kind='lemma',
             params={'n': T.int}, requires=["0 <= n < 2**128"],
             ensures={'roundtrip': "result == n"}, raises={}),
    Contract(ME, 'lemma_injective', prop=PROP, spec_globals=G, level='top', kind='lemma',
             params={'a': T.int, 'b': T.int}, requires=["0 <= a < 2**128", "0 <= b < 2**128"],
             ensures={'injective': "implies(result[0], result[1])"}, raises={}),
    Contract(ME, 'lemma_both_forms', prop=PROP, spec_globals=G, level='top', kind='lemma',
             params={'n': T.int}, requires=["0 <= n < 2**128"],
             ensures={'short_form_accepted': "result == n"}, raises={}),
]

# which contracts stand in for callees while verifying each function (modular verification)
USES = {
    'uuid_to_short_str': ['_int_to_str'],
    'uuid_from_short_str': ['_str_to_int'],
    'uuid_from_str': ['uuid_from_short_str'],
    'lemma_roundtrip': ['uuid_to_short_str', 'uuid_from_short_str'],
    'lemma_injective': ['uuid_to_short_str'],
    'lemma_both_forms': ['uuid_to_short_str', 'uuid_from_str'],
}

ASSUMED_LIBRARY = [
    "uuid.UUID(int=n): raises ValueError iff not 0 <= n < 2**128, else an object whose .int is n",
    "uuid.UUID(s) for a str s: raises ValueError or returns a UUID; raises ValueError for every "
    "22-character string (it strips 'urn:', 'uuid:', braces and hyphens, which never lengthens, "
    "and requires 32 hex digits)",
]

# --- replay / cross-check support -------------------------------------------------------
RECIPES = {'uuid:UUID': lambda fields: uuid.UUID(int=fields['int'])}

_U = lambda n: {'__class__': 'uuid:UUID', 'fields': {'int': n}}   # noqa
SAMPLES = {
    '_int_to_str': [{'number': n} for n in (0, 1, 56, 57, 58, 57 ** 2, 57 ** 21, 2 ** 128 - 1, 2 ** 64 + 12345)],
    '_str_to_int': [{'string': s} for s in ('2' * 22, 'hfDoPxAatD8tiFaSAL3oXh', 'z' * 22, '0' + '2' * 21,
                                            '2' * 21 + 'l')],
    'uuid_to_short_str': [{'uuid_obj': _U(n)} for n in (0, 1, 2 ** 128 - 1, 0xde22bbe043bf448d9b832ee57e663285)],
    'uuid_from_short_str': [{'uuid_short_str': s} for s in
                            ('hfDoPxAatD8tiFaSAL3oXh', '2' * 22, 'z' * 22, '', 'abc', 5, None, '2' * 23,
                             '2' * 21 + 'z', 'oaR9HP7eZCgJGQxEUXeCz8', 'paR9HP7eZCgJGQxEUXeCz8')],
    'uuid_from_str': [{'uuid_str': s} for s in
                      ('de22bbe0-43bf-448d-9b83-2ee57e663285', 'hfDoPxAatD8tiFaSAL3oXh', 'nonsense',
                       '{de22bbe0-43bf-448d-9b83-2ee57e663285}', 'z' * 22)],
    'lemma_roundtrip': [{'n': n} for n in (0, 1, 2 ** 128 - 1, 12345678901234567890)],
}

# deliberately broken bodies (in memory only) that the named obligation must refute
CANARIES = [
    {'name': 'int_to_str_pads_with_wrong_letter', 'module': M, 'function': '_int_to_str',
     'old': '_ALPHABET[0] * remainder_len', 'new': '_ALPHABET[1] * remainder_len',
     'expect': 'C20._int_to_str.value'},
    {'name': 'str_to_int_not_reversed', 'module': M, 'function': '_str_to_int',
     'old': 'string[::-1]', 'new': 'string', 'expect': 'C20._str_to_int.value'},
    {'name': 'from_short_off_by_one', 'module': M, 'function': 'uuid_from_short_str',
     'old': '_str_to_int(uuid_short_str)', 'new': '_str_to_int(uuid_short_str) + 1',
     'expect': 'C20.uuid_from_short_str.accepts'},
    {'name': 'from_short_skips_length_test', 'module': M, 'function': 'uuid_from_short_str',
     'old': 'len(uuid_short_str) != _SHORT_GUID_LEN', 'new': 'len(uuid_short_str) > _SHORT_GUID_LEN',
     'expect': 'C20.uuid_from_short_str.pre[_str_to_int].0'},
]
