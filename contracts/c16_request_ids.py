"""C16 - request ids are unique per connection under concurrent use.

Lock-invariant reasoning.  Invariant I(impl): `impl._cur_req_id` is None forever, or an int n >= 0 equal
to the number of ids handed out.  Obligations:
  owned / lock_is_a_lock / no_reflection   (syntactic, over the AST of every ak/*.py): every access to the counter
        outside _HttpConnImpl.__init__ happens inside `with <same object>._reqid_generator_guard:`, except
        loads used only as the operand of `is None` / `is not None`
  critical section (sequential VC of _generate_request_id under I): counter += 1, id is a function of the
        value read inside the section and of the immutable connection part; all accesses inside the section
  distinct ids (lemma over the contract): different numbers give different ids
  caller id kept (do_request slice): a supplied X-Request-ID is sent unchanged and consumes no number;
        otherwise exactly one number is consumed
  shared impl: derived connections use the root's _HttpConnImpl
From these, by the soundness of lock-invariant reasoning (critical sections of one lock are serialised and
I holds whenever the lock is free), the numbers handed out are 0,1,2,... without gaps or repeats for every
interleaving.  That meta-theorem and the semantics of threading.Lock / `with` are the trusted base."""
import ast
import glob
import os

from pyvc.contract import Contract, T
from pyvc.speclib import implies, iff
from ak import conn_http

PROP = 'C16'
M = 'ak.conn_http'
ME = __name__
COUNTER = '_cur_req_id'
GUARD = '_reqid_generator_guard'
REQ_ID = 'X-Request-ID'


def id_text(part, n):
    """the request id for sequence number n (spec, from the code's layout: connection part, low four
    digits, fixed groups, the number zero-padded to 12)"""
    return part + "{:04}".format(n % 10000) + "-0000-0000-0000-" + "{:012}".format(n)


def has_id(headers):
    return headers is not None and 'X-Request-ID' in headers


def lemma_distinct_ids(part, a, b):
    return implies(a != b, id_text(part, a) != id_text(part, b))


def lemma_number_readable(part, a, b):
    """the id determines the number (what 'sequence numbers without gaps or repeats' is read from)"""
    return implies(id_text(part, a) == id_text(part, b), a == b)


# ---------------------------------------------------------------------------------------
# syntactic obligations over the real source of the whole package

def _sources():
    root = os.path.dirname(conn_http.__file__)
    for path in sorted(glob.glob(os.path.join(root, '*.py'))):
        with open(path, encoding='utf-8') as f:
            yield path, f.read()


class _Scan(ast.NodeVisitor):
    def __init__(self, path):
        self.path = path
        self.stack = []          # enclosing nodes
        self.bad = []            # (line, text)
        self.accesses = 0
        self.guard_assigns = []  # (line, function qualname, value source)
        self.reflection = []
        self.stores = []         # (line, function qualname, statement source)

    def generic_visit(self, node):
        self.stack.append(node)
        super().generic_visit(node)
        self.stack.pop()

    def _qual(self):
        names = [n.name for n in self.stack if isinstance(n, (ast.ClassDef, ast.FunctionDef))]
        return '.'.join(names)

    def _base(self, node):
        return ast.dump(node.value)

    def visit_Constant(self, node):
        if isinstance(node.value, str) and node.value in (COUNTER, GUARD) and not self._in_slots():
            self.reflection.append((node.lineno, f"string {node.value!r} (reflective access)"))

    def _in_slots(self):
        for n in self.stack:
            if isinstance(n, ast.Assign) and any(isinstance(t, ast.Name) and t.id == '__slots__' for t in n.targets):
                return True
        return False

    def visit_Attribute(self, node):
        if node.attr == GUARD and isinstance(node.ctx, ast.Store):
            par = self.stack[-1] if self.stack else None
            val = ast.unparse(par.value) if isinstance(par, ast.Assign) else '?'
            self.guard_assigns.append((node.lineno, self._qual(), val))
        if node.attr == COUNTER and isinstance(node.ctx, (ast.Store, ast.Del)):
            par = self.stack[-1] if self.stack else None
            self.stores.append((node.lineno, self._qual(), ast.unparse(par) if par is not None else '?'))
        if node.attr == COUNTER:
            self.accesses += 1
            qual = self._qual()
            if qual == '_HttpConnImpl.__init__':
                pass
            elif self._inside_guard(node):
                pass
            elif isinstance(node.ctx, ast.Load) and self._is_none_test(node):
                pass
            else:
                kind = 'store' if isinstance(node.ctx, (ast.Store, ast.Del)) else 'load'
                self.bad.append((node.lineno, f"{kind} of {COUNTER} in {qual or '<module>'} outside "
                                              f"`with {ast.unparse(node.value)}.{GUARD}:`"))
        self.generic_visit(node)

    def _inside_guard(self, node):
        for n in self.stack:
            if isinstance(n, ast.With):
                for item in n.items:
                    ce = item.context_expr
                    if isinstance(ce, ast.Attribute) and ce.attr == GUARD and ast.dump(ce.value) == self._base(node):
                        # the access must be in the body, not in the with header
                        return True
        return False

    def _is_none_test(self, node):
        par = self.stack[-1] if self.stack else None
        return (isinstance(par, ast.Compare) and par.left is node and len(par.ops) == 1
                and isinstance(par.ops[0], (ast.Is, ast.IsNot))
                and isinstance(par.comparators[0], ast.Constant) and par.comparators[0].value is None)


def _scan_all():
    out = []
    for path, text in _sources():
        sc = _Scan(path)
        sc.visit(ast.parse(text, path))
        out.append(sc)
    return out


def ob_owned(world=None):
    scans = _scan_all()
    bad = [(os.path.basename(s.path), ln, t) for s in scans for ln, t in s.bad]
    n = sum(s.accesses for s in scans)
    if n == 0:
        return None, {'detail': f"no access to {COUNTER} found at all (attribute renamed?)"}
    return not bad, {'accesses': n, 'unprotected': bad}


def ob_single_writer(world=None):
    """the invariant 'counter == number of ids handed out' needs more than protection: outside __init__ the counter
    is written only inside _generate_request_id (whose sequential VC shows that each execution adds exactly one and
    hands out exactly the value it read); no other code, locked or not, may move it"""
    scans = _scan_all()
    stores = [(os.path.basename(s.path),) + st for s in scans for st in s.stores]
    outside = [st for st in stores if st[2] != '_HttpConnImpl.__init__']
    ok = len(outside) >= 1 and all(st[2] == '_HttpConnImpl._generate_request_id' for st in outside)
    return ok, {'stores_outside_init': outside}


def ob_lock_is_a_lock(world=None):
    scans = _scan_all()
    assigns = [(os.path.basename(s.path),) + a for s in scans for a in s.guard_assigns]
    ok = len(assigns) == 1 and assigns[0][2] == '_HttpConnImpl.__init__' and \
        assigns[0][3] in ('threading.Lock()', 'threading.RLock()', 'Lock()', 'RLock()')
    return ok, {'assignments': assigns}


def ob_no_reflection(world=None):
    scans = _scan_all()
    refl = [(os.path.basename(s.path), ln, t) for s in scans for ln, t in s.reflection]
    return not refl, {'reflective': refl}


STATIC_OBLIGATIONS = {
    'C16.lock_invariant.owned': (ob_owned, 'top'),
    'C16.lock_invariant.lock_is_a_lock': (ob_lock_is_a_lock, 'top'),
    'C16.lock_invariant.single_writer': (ob_single_writer, 'top'),
    'C16.lock_invariant.no_reflection': (ob_no_reflection, 'top'),
}


# ---------------------------------------------------------------------------------------
# sequential verification conditions

def _in_section(events):
    """every recorded access to the counter lies inside the critical section of the guard of the same object,
    and the section is entered exactly once"""
    acc = [e for e in events if e[0] in ('load', 'store') and e[1] == COUNTER]
    enters = [e for e in events if e[0] == 'lock_enter']
    return bool(acc) and len(enters) == 1 and all(len(e[3]) == 1 for e in acc)


def _counter_untouched(events):
    return not [e for e in events if e[0] == 'store' and e[1] == COUNTER]


IMPL = lambda **kw: T.obj('ak.conn_http:_HttpConnImpl', **kw)     # noqa
G = globals()

_HEADERS = T.one_of(T.none, T.dict({}), T.dict({'X-Request-ID': T.str}), T.dict({'Accept': T.str}),
                    T.dict({'X-Request-ID': T.str, 'Content-Type': T.str}))

CONTRACTS = [
    Contract(M, '_HttpConnImpl._generate_request_id', prop=PROP, spec_globals=G, level='top',
             params={'self': IMPL(_cur_req_id=T.nat, _reqid_connection_part=T.str, _reqid_generator_guard=T.lock,
                                  address=T.str)},
             watch_attrs=(COUNTER,),
             ensures={'counter_incremented': "self._cur_req_id == old(self._cur_req_id) + 1",
                      'id_function': "result == id_text(old(self._reqid_connection_part), old(self._cur_req_id))",
                      },
             event_clauses={'accesses_inside_critical_section': _in_section},
             modifies=['self._cur_req_id'], havoc={'self._cur_req_id': T.nat},
             raises={}, result_spec=T.str),
    Contract(ME, 'lemma_distinct_ids', prop=PROP, spec_globals=G, level='top', kind='lemma',
             params={'part': T.str, 'a': T.nat, 'b': T.nat},
             ensures={'distinct_ids': "result"}, raises={}),
    Contract(ME, 'lemma_number_readable', prop=PROP, spec_globals=G, level='top', kind='lemma',
             params={'part': T.str, 'a': T.nat, 'b': T.nat},
             ensures={'number_readable': "result"}, raises={}),
    # the prefix of do_request up to the construction of urllib.request.Request (network I/O dropped)
    Contract(M, '_HttpConnImpl.do_request', name='_HttpConnImpl.do_request/request_id', prop=PROP, spec_globals=G,
             level='top',
             body_slice={'stop_before': 'urllib.request.Request(',
                         'result_call': {'func': 'urllib.request.Request', 'pick': ['url', 'method', 'data', 'headers'],
                                         'signature': ['url', 'data', 'headers', 'origin_req_host', 'unverifiable', 'method']}},
             params={'self': IMPL(_cur_req_id=T.one_of(T.nat, T.none), _reqid_connection_part=T.str,
                                  _reqid_generator_guard=T.lock, address=T.str),
                     'adapters': T.const([]), 'path': T.str, 'method': T.one_of(T.none, T.const('GET')),
                     'params': T.none, 'data': T.none, 'headers': _HEADERS, 'raw_response': T.const(False)},
             watch_attrs=(COUNTER,),
             ensures={
                 'caller_id_kept': "not has_id(headers) or (result[3]['X-Request-ID'] == headers['X-Request-ID'] "
                                   "and self._cur_req_id == old(self._cur_req_id))",
                 'one_number_consumed': "old(self._cur_req_id) is None or has_id(headers) or "
                                        "(self._cur_req_id == old(self._cur_req_id) + 1 and result[3]['X-Request-ID'] == "
                                        "id_text(old(self._reqid_connection_part), old(self._cur_req_id)))",
                 'ids_off': "old(self._cur_req_id) is not None or (self._cur_req_id is None and "
                            "iff('X-Request-ID' in result[3], has_id(headers)))",
                 'caller_headers_untouched': "headers == old(headers)",
             },
             raises={}),
]

USES = {
    '_HttpConnImpl.do_request/request_id': ['_HttpConnImpl._generate_request_id'],
}

RECIPES = {}

ASSUMED_LIBRARY = [
    "threading.Lock gives mutual exclusion and `with lock:` brackets exactly its body; soundness of lock-invariant "
    "reasoning (meta-theorem, not mechanised here)",
    "the GIL-level atomicity of reading an attribute for the `is None` test (None-ness of the counter never changes "
    "after __init__: every store is `+= 1` on an int inside the section)",
]

SAMPLES = {}

CANARIES = [
    {'name': 'increment_by_two', 'module': M, 'function': '_HttpConnImpl._generate_request_id',
     'old': 'self._cur_req_id += 1', 'new': 'self._cur_req_id += 2',
     'expect': 'C16._HttpConnImpl._generate_request_id.counter_incremented'},
    {'name': 'id_from_counter_after_section', 'module': M, 'function': '_HttpConnImpl._generate_request_id',
     'old': '"{:012}".format(next_req_id))', 'new': '"{:012}".format(self._cur_req_id))',
     'expect': 'C16._HttpConnImpl._generate_request_id.accesses_inside_critical_section'},
]


def static_replay(oid, detail):
    """refuted syntactic obligation -> forced two-thread schedule on the real code (harness.c16_schedule)"""
    if oid.endswith('.owned') and detail.get('unprotected'):
        from harness import c16_schedule
        for fname, lineno, text in detail['unprotected']:
            if fname != 'conn_http.py':
                continue
            ok, obs = c16_schedule.replay_unprotected_access(lineno)
            if ok:
                return True, {'kind': 'driver-case', 'driver': 'harness.c16_schedule', 'case': {'lineno': lineno},
                              'obligation_detail': detail, 'observed': obs}
        return False, {'kind': 'static-obligation', 'detail': detail,
                       'note': 'no forced two-thread schedule produced a duplicate or a gap'}
    return False, {'kind': 'static-obligation', 'detail': detail}
