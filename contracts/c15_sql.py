"""C15 - SQL filters select exactly the intended rows; values are always bound.
Contracts on ak/mtd_sql.py.  The text / parameter list of a condition is proved equal to the canonical
rendering of the INTENDED condition tree for symbolic field names, opaque operand values and IN-collections
of symbolic length; that the DB engine returns exactly the rows for which the intended condition holds under
three-valued logic is the assumed engine contract (validated on sqlite3 by harness/c15.py)."""
from pyvc.contract import Contract, T
from pyvc.speclib import implies, iff
from ak import mtd_sql

PROP = 'C15'
M = 'ak.mtd_sql'
G = globals()

SUPPORTED = ('=', '!=', 'IN', 'NOT IN', 'IS NULL', 'IS NOT NULL', 'LIKE', 'NOT LIKE', '>', '<', '>=', '<=')
PH = {0: '?', 1: '%s'}          # DB-API placeholder styles qmark / format


def is_coll(v):
    return isinstance(v, (list, tuple, set))


def invalid(op, v):
    """operator/operand pairs the statement calls invalid (op upper-cased)"""
    if op not in SUPPORTED:
        return True
    if op in ('IN', 'NOT IN'):
        return not is_coll(v)
    if op in ('IS NULL', 'IS NOT NULL'):
        return v is not None
    if op in ('LIKE', 'NOT LIKE'):
        return not isinstance(v, str)
    return False


def intent(field, op, v):
    """the intended condition, straight from the statement (op upper-cased, pair valid)"""
    if op in ('=', '!='):
        if v is None:
            return ('isnull', field, op == '!=')
        if isinstance(v, (list, tuple)):
            return ('in', field, op == '!=', v)
        return ('cmp', field, op, v)
    if op in ('IN', 'NOT IN'):
        return ('in', field, op == 'NOT IN', v)
    if op in ('IS NULL', 'IS NOT NULL'):
        return ('isnull', field, op == 'IS NOT NULL')
    if op in ('LIKE', 'NOT LIKE'):
        return ('like', field, op == 'NOT LIKE', v)
    return ('cmp', field, op, v)


def render(c, ph):
    """canonical text of a condition; the operand never occurs in it"""
    k = c[0]
    if k == 'cmp':
        return c[1] + " " + c[2] + " " + ph
    if k == 'isnull':
        return c[1] + (" IS NOT NULL" if c[2] else " IS NULL")
    if k == 'like':
        return c[1] + (" NOT LIKE " if c[2] else " LIKE ") + ph
    # 'in': an empty collection is the constant FALSE (IN) / TRUE (NOT IN)
    if not c[3]:
        return "1" if c[2] else "0"
    return c[1] + (" NOT IN " if c[2] else " IN ") + "(" + ", ".join(ph for _ in c[3]) + ")"


def params(c):
    """bound values, left to right"""
    k = c[0]
    if k in ('cmp', 'like'):
        return [c[3]]
    if k == 'isnull':
        return []
    return list(c[3])


def cond(self):
    return intent(self.field_name, self.op, self.value)


def render_or(operands, ph):
    if not operands:
        return "FALSE"
    return "(" + " OR ".join(render(cond(o), ph) for o in operands) + ")"


def params_all(operands):
    out = []
    for o in operands:
        out = out + params(cond(o))
    return out


def normalized(op, v):
    """state reachable from the constructor: a valid pair with '='/'!=' already specialised"""
    return op in SUPPORTED and not invalid(op, v) and not (op in ('=', '!=') and (v is None or isinstance(v, (list, tuple))))


def arg_cond_text(x, ph):
    if isinstance(x, mtd_sql.SqlOrCondition):
        return render_or(x.operands, ph)
    if isinstance(x, mtd_sql.SqlFieldValCondition):
        return render(cond(x), ph)
    if len(x) == 3:
        return render(intent(x[0], x[1].upper(), x[2]), ph)
    return render(intent(x[0], '=', x[1]), ph)


def arg_cond_params(x):
    if isinstance(x, mtd_sql.SqlOrCondition):
        return params_all(x.operands)
    if isinstance(x, mtd_sql.SqlFieldValCondition):
        return params(cond(x))
    if len(x) == 3:
        return params(intent(x[0], x[1].upper(), x[2]))
    return params(intent(x[0], '=', x[1]))


def all_filters(args, kwargs):
    """positional filters in order (None ignored), then keyword filters as equalities in sorted key order"""
    out = [a for a in args if a is not None]
    for k in sorted(kwargs):
        if k not in ('_order_by', '_as_scalars'):
            out.append((k, kwargs[k]))
    return out


def statement(self, args, kwargs, ph):
    fs = all_filters(args, kwargs)
    sql = self.sql_select_from
    if fs:
        sql = sql + " WHERE " + " AND ".join(arg_cond_text(f, ph) for f in fs)
    if self.group_by:
        sql = sql + " GROUP BY " + self.group_by
    order = kwargs['_order_by'] if '_order_by' in kwargs else self.default_order_by
    if order is not None:
        sql = sql + " ORDER BY " + order
    return sql


def statement_params(args, kwargs):
    out = []
    for f in all_filters(args, kwargs):
        out = out + arg_cond_params(f)
    return out


# ---- parameter kinds ------------------------------------------------------------------
SCALAR = T.opaque('value', pytype=object)
VALUES = T.one_of(T.none, SCALAR, T.str, T.symcoll(list), T.symcoll(tuple), T.symcoll(set))
OPS = T.one_of(*[T.const(o) for o in ('=', '!=', 'in', 'IN', 'not in', 'NOT IN', 'is null', 'IS NOT NULL', 'like',
                                      'Not Like', '>', '<', '>=', '<=', 'BETWEEN', '==')], T.str)


def COND(op, value):
    return T.obj('ak.mtd_sql:SqlFieldValCondition', field_name=T.str, op=T.const(op), value=value)


_NORMAL = [('=', SCALAR), ('=', T.str), ('!=', SCALAR), ('>', SCALAR), ('<', SCALAR), ('>=', SCALAR), ('<=', T.str),
           ('IN', T.symcoll(list)), ('IN', T.symcoll(tuple)), ('IN', T.symcoll(set)), ('NOT IN', T.symcoll(list)),
           ('NOT IN', T.symcoll(set)), ('IS NULL', T.none), ('IS NOT NULL', T.none), ('LIKE', T.str), ('NOT LIKE', T.str)]

CONTRACTS = [
    Contract(M, 'SqlFieldValCondition.__init__', prop=PROP, spec_globals=G, level='top',
             params={'self': T.obj('ak.mtd_sql:SqlFieldValCondition'), 'field_name': T.str, 'op': OPS, 'value': VALUES},
             requires=["isinstance(op, str)", "type(op) is not str or op in ALL_CONCRETE_OPS or op.upper() not in SUPPORTED"],
             ensures={
                 'accepts_only_valid': "not invalid(op.upper(), value)",
                 'normalised': "normalized(self.op, self.value) and "
                               "intent(self.field_name, self.op, self.value) == intent(field_name, op.upper(), value)",
                 'stored': "self.field_name == field_name and self.value is value",
             },
             raises={'rejects': ((ValueError,), "invalid(op.upper(), value)")},
             modifies=['self.field_name', 'self.op', 'self.value']),
    Contract(M, 'SqlFieldValCondition.make_text_update_values', prop=PROP, spec_globals=G, level='top',
             params={'self': T.one_of(*[COND(o, v) for o, v in _NORMAL]),
                     'values_list': T.symlist, 'placeholders_type': T.one_of(T.const(0), T.const(1))},
             requires=["normalized(self.op, self.value)"],
             ensures={
                 'text': "result == render(cond(self), PH[placeholders_type])",
                 'values': "values_list == old(values_list) + params(cond(self))",
                 'condition_untouched': "self.op == old(self.op) and self.value is old(self.value) "
                                        "and self.field_name == old(self.field_name)",
             },
             modifies=['values_list'], raises={}),
    Contract(M, 'SqlOrCondition.make_text_update_values', prop=PROP, spec_globals=G, level='top',
             params={'self': T.one_of(*[T.obj('ak.mtd_sql:SqlOrCondition', operands=T.list(*ops)) for ops in (
                         [], [COND('=', SCALAR)], [COND('IS NULL', T.none), COND('IN', T.symcoll(list))],
                         [COND('LIKE', T.str), COND('NOT IN', T.symcoll(tuple)), COND('<', SCALAR)])]),
                     'values_list': T.symlist, 'placeholders_type': T.one_of(T.const(0), T.const(1))},
             ensures={
                 'text': "result == render_or(self.operands, PH[placeholders_type])",
                 'values': "values_list == old(values_list) + params_all(self.operands)",
             },
             modifies=['values_list'], raises={},
             note="bounded-symbolic in the number of operands (0..3); operands and values symbolic"),
    Contract(M, 'SqlFilterCondition.make', prop=PROP, spec_globals=G, level='sup',
             params={'cls': T.cls('ak.mtd_sql:SqlFilterCondition'),
                     'src_obj': T.one_of(COND('=', SCALAR), T.tuple(T.str, T.const('in'), T.symcoll(list)),
                                         T.tuple(T.str, SCALAR), T.tuple(T.str, T.str), T.tuple(T.str, T.none), T.list(T.str, T.const('>'), SCALAR),
                                         T.tuple(T.str, T.const('like'), T.str),
                                         T.tuple(T.str,), T.tuple(T.str, T.str, T.str, T.str), T.int, T.none)},
             ensures={
                 'dispatch': "(isinstance(src_obj, SqlFilterCondition) and result is src_obj) or "
                             "(isinstance(src_obj, (list, tuple)) and len(src_obj) in (2, 3) and "
                             "cond(result) == intent(src_obj[0], (src_obj[1].upper() if len(src_obj) == 3 else '='), src_obj[-1]))",
             },
             raises={'bad_argument': ((ValueError,), "not isinstance(src_obj, SqlFilterCondition) and "
                                                     "not (isinstance(src_obj, (list, tuple)) and len(src_obj) in (2, 3))")}),
]

def METHOD():
    return T.obj('ak.mtd_sql:SqlMethod', sql_select_from=T.str, group_by=T.one_of(T.none, T.str),
                 default_order_by=T.one_of(T.none, T.str), default_as_scalars=T.bool,
                 record_name=T.const('record'), fields=T.none, rec_type=T.none)


def OR(*ops):
    return T.obj('ak.mtd_sql:SqlOrCondition', operands=T.list(*ops))


CONTRACTS.append(
    # the prefix of _execute up to the hand-over to the cursor: statement assembly
    Contract(M, 'SqlMethod._execute', name='SqlMethod._execute/statement', prop=PROP, spec_globals=G, level='top',
             body_slice={'stop_before': 'conn.cursor()',
                         'result_call': {'func': '*.execute', 'signature': ['operation', 'parameters'],
                                         'pick': ['operation', 'parameters'], 'then': ['as_scalars']}},
             params={'self': METHOD(), 'conn': T.opaque('conn', pytype=object),
                     'args': T.one_of(T.tuple(), T.tuple(COND('>', SCALAR)), T.tuple(T.none, T.tuple(T.str, SCALAR)),
                                      T.tuple(T.tuple(T.str, T.const('in'), T.symcoll(list)),
                                              OR(COND('IS NULL', T.none), COND('LIKE', T.str))),
                                      T.tuple(T.tuple(T.str, T.none), T.none, T.tuple(T.str, T.const('!='), T.symcoll(tuple)))),
                     'kwargs': T.one_of(T.dict({}), T.dict({'name': SCALAR}), T.dict({'name': T.str}),
                                        T.dict({'_order_by': T.str, 'b': SCALAR, 'a': T.none}),
                                        T.dict({'_as_scalars': T.const(True), 'zz': T.symcoll(list)}))},
             ensures={
                 'statement': "result[0] == statement(self, args, old(kwargs), '?')",
                 'parameters_in_order': "result[1] == statement_params(args, old(kwargs))",
                 'as_scalars': "result[2] == (old(kwargs)['_as_scalars'] if '_as_scalars' in old(kwargs) "
                               "else self.default_as_scalars)",
             },
             modifies=['kwargs'],     # the **kwargs dict of the caller's call frame; args, self, conn: frame obligations
             raises={}, max_paths=20000,
             note="bounded-symbolic in the number of filters (<= 3 positional + <= 2 keyword); each filter symbolic"))

BOUNDED_SYMBOLIC_EXTRA = {'SqlMethod._execute/statement': 5}

ALL_CONCRETE_OPS = ('=', '!=', 'in', 'IN', 'not in', 'NOT IN', 'is null', 'IS NOT NULL', 'like', 'Not Like', '>', '<',
                    '>=', '<=', 'BETWEEN', '==')
SqlFilterCondition = mtd_sql.SqlFilterCondition

BOUNDED_SYMBOLIC = {'SqlOrCondition.make_text_update_values': 3, 'SqlMethod._execute/statement': 5}

USES = {}

ASSUMED_LIBRARY = [
    "the DB engine evaluates the parameterised statement under SQL three-valued logic and returns exactly the rows for "
    "which the rendered condition holds, binding one value per placeholder in order (validated on sqlite3 by the bounded driver)",
    "field names are code, not data: they contain no placeholder token",
    "str.upper() of a symbolic operator string is uninterpreted; the concrete operator spellings are enumerated",
]

CANARIES = [
    {'name': 'empty_in_is_true', 'module': M, 'function': 'SqlFieldValCondition.make_text_update_values',
     'old': 'sql = "0" if self.op == \'IN\' else "1"', 'new': 'sql = "1" if self.op == \'IN\' else "0"',
     'combos': ["op=const('IN')", 'list[n]', 'const(0)'],
     'expect': 'C15.SqlFieldValCondition.make_text_update_values.text'},
    {'name': 'like_value_not_bound', 'module': M, 'function': 'SqlFieldValCondition.make_text_update_values',
     'old': "        elif self.op in ('LIKE', 'NOT LIKE'):\n            values_list.append(self.value)",
     'new': "        elif self.op in ('LIKE', 'NOT LIKE'):\n            pass",
     'combos': ["op=const('LIKE')", 'const(0)'],
     'expect': 'C15.SqlFieldValCondition.make_text_update_values.values'},
    {'name': 'init_accepts_like_with_scalar', 'module': M, 'function': 'SqlFieldValCondition.__init__',
     'old': 'if not isinstance(value, str):', 'new': 'if value is None:',
     'combos': ["op:const('like')", 'value:opaque'],
     'expect': 'C15.SqlFieldValCondition.__init__.accepts_only_valid'},
]
