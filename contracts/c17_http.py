"""C17 - layered HTTP connections compose adapters without side effects.
Per-operation contracts on ak/conn_http.py and ak/mcaller_http.py; the all-histories claim follows by
induction over operations from the frames (every operation states which objects it leaves untouched)."""
import ast
import base64

from pyvc.contract import Contract, T
from pyvc.speclib import implies, iff
from ak import conn_http, mcaller_http

BAuthAdapter = conn_http.BAuthConn.Adapter
ClientAuthAdapter = conn_http.ClientAuthConn.Adapter
TokenAuthAdapter = conn_http.TokenAuthConn.Adapter

PROP = 'C17'
M = 'ak.conn_http'
MM = 'ak.mcaller_http'
G = globals()


# ---- spec functions -------------------------------------------------------------------
def b64_text(s):
    """library (assumed): base64.b64encode of the utf-8 encoding of s; decode(encode(x)) == x"""
    return base64.b64encode(s.encode('utf-8'))


def with_header(headers, name, value):
    out = dict(headers)
    out[name] = value
    return out


def prefixed(prefix, path):
    """path with one prefix applied: a '/' is dropped when both sides have one"""
    if path and path.startswith('/') and prefix.endswith('/'):
        return prefix + path[1:]
    return prefix + path


def chain_of(own, parent_adapters):
    return list(own) + list(parent_adapters)


def same_objects(xs, ys):
    """element-wise identity of two sequences"""
    return len(xs) == len(ys) and all(a is b for a, b in zip(xs, ys))


def as_list(adapters):
    return list(adapters) if isinstance(adapters, (list, tuple)) else [adapters]


def url_of(address, path, params):
    """address + path (+ url-encoded params); a '/' is inserted iff neither side has one"""
    p = path
    if params:
        p = p + "?" + urlencode_spec(params)
    if not address.endswith('/') and not p.startswith('/'):
        p = '/' + p
    return address + p


def urlencode_spec(params):
    from urllib.parse import urlencode
    return urlencode(params)


def json_spec(data):
    import json
    return json.dumps(data)


def body_of(data):
    """None / bytes as they are / str -> utf-8 / anything else -> json text utf-8"""
    if data is None:
        return None
    if isinstance(data, bytes):
        return data
    if isinstance(data, str):
        return data.encode('utf-8')
    return json_spec(data).encode('utf-8')


def method_of(method, data):
    if not method:
        return 'POST' if data else 'GET'
    return str(method).upper()


def structured(data):
    return data is not None and not isinstance(data, (bytes, str))


# ---- parameter kinds ------------------------------------------------------------------
REQ_ARGS = lambda headers: T.obj('ak.conn_http:RequestArguments', address=T.str, path=T.str, method=T.one_of(T.none, T.str),   # noqa
                                 params=T.none, data=T.none, headers=headers)
HEADERS_NOAUTH = T.one_of(T.dict({}), T.dict({'Accept': T.str}))
PREFIX = lambda: T.obj('ak.conn_http:RequestAdapterAddPathPrefix', prefix=T.str)        # noqa
BAUTH = lambda: T.obj('ak.conn_http:BAuthConn.Adapter', login=T.str, password=T.str, bauth_header=T.opaque('hdr', pytype=bytes))   # noqa
CAUTH = lambda: T.obj('ak.conn_http:ClientAuthConn.Adapter', client_name=T.str, client_id=T.str, client_secret=T.str,   # noqa
                      bauth_header=T.opaque('hdr', pytype=bytes))
TAUTH = lambda: T.obj('ak.conn_http:TokenAuthConn.Adapter', token_descr=T.none, header=T.str)   # noqa
MARK = lambda: T.obj('ak.conn_http:RequestAdapter')     # noqa
IMPL = lambda: T.obj('ak.conn_http:_HttpConnImpl', address=T.str, adapters=T.list(), _cur_req_id=T.nat)   # noqa


def CONN(*adapters):
    """an existing connection with the given chain"""
    impl = IMPL()
    return T.custom(f"conn[{len(adapters)}]", lambda I, name: _mk_conn(I, name, adapters, impl))


def _mk_conn(I, name, adapters, impl_spec):
    from pyvc.values import SObj, SList
    impl = impl_spec.make(I, name + '.impl')
    impl.fields['conn_impl'] = impl
    items = [a.make(I, f"{name}.a{i}") for i, a in enumerate(adapters)]
    return SObj(conn_http.HttpConn, {'parent_conn': impl, 'conn_impl': impl, 'own_adapters': SList(list(items)),
                                     'adapters': SList(list(items)), 'descr': None, 'auth_type': None}, tag=name)


ADAPTER_ARG = T.one_of(MARK(), PREFIX(), T.list(), T.list(MARK()), T.list(PREFIX(), MARK()), T.tuple(MARK()),
                       T.tuple(PREFIX(), MARK()))
PARENTS = T.one_of(CONN(), CONN(PREFIX()), CONN(MARK(), PREFIX()))

CONTRACTS = [
    Contract(M, 'RequestArguments.__init__', prop=PROP, spec_globals=G, level='top',
             params={'self': T.obj('ak.conn_http:RequestArguments'), 'address': T.str, 'path': T.str,
                     'method': T.one_of(T.none, T.str), 'params': T.one_of(T.none, T.dict({'q': T.str})),
                     'data': T.one_of(T.none, T.str, T.opaque('data')),
                     'headers': T.one_of(T.none, T.dict({}), T.dict({'Accept': T.str}))},
             ensures={'headers_copied': "self.headers == (headers if headers else {}) and self.headers is not headers",
                      'fields': "self.address == address and self.path == path and self.method == method "
                                "and self.params is params and self.data is data"},
             modifies=['self.address', 'self.path', 'self.method', 'self.params', 'self.data', 'self.headers'],
             raises={}),
    Contract(M, 'BAuthConn.Adapter.process_req_args', prop=PROP, spec_globals=G, level='top',
             params={'self': BAUTH(), 'req_args': REQ_ARGS(HEADERS_NOAUTH)},
             ensures={'effect': "req_args.headers == with_header(old(req_args.headers), 'Authorization', self.bauth_header)",
                      'path_kept': "req_args.path == old(req_args.path)"},
             modifies=['req_args.headers'], raises={}),
    Contract(M, 'ClientAuthConn.Adapter.process_req_args', prop=PROP, spec_globals=G, level='top',
             params={'self': CAUTH(), 'req_args': REQ_ARGS(HEADERS_NOAUTH)},
             ensures={'effect': "req_args.headers == with_header(old(req_args.headers), 'Authorization', self.bauth_header)",
                      'path_kept': "req_args.path == old(req_args.path)"},
             modifies=['req_args.headers'], raises={}),
    Contract(M, 'TokenAuthConn.Adapter.process_req_args', prop=PROP, spec_globals=G, level='top',
             params={'self': TAUTH(), 'req_args': REQ_ARGS(HEADERS_NOAUTH)},
             ensures={'effect': "req_args.headers == with_header(old(req_args.headers), 'Authorization', self.header)",
                      'path_kept': "req_args.path == old(req_args.path)"},
             modifies=['req_args.headers'], raises={}),
    Contract(M, 'BAuthConn.Adapter.__init__', prop=PROP, spec_globals=G, level='top',
             params={'self': T.obj('ak.conn_http:BAuthConn.Adapter'), 'login': T.str, 'password': T.str},
             ensures={'credentials': "self.bauth_header == b'Basic ' + b64_text(login + ':' + password)"},
             modifies=['self.login', 'self.password', 'self.bauth_header'], raises={}),
    Contract(M, 'ClientAuthConn.Adapter.__init__', prop=PROP, spec_globals=G, level='top',
             params={'self': T.obj('ak.conn_http:ClientAuthConn.Adapter'), 'client_name': T.str, 'client_id': T.str,
                     'client_secret': T.str},
             ensures={'credentials': "self.bauth_header == b'Basic ' + b64_text(client_id + ':' + client_secret)"},
             modifies=['self.client_name', 'self.client_id', 'self.client_secret', 'self.bauth_header'], raises={}),
    Contract(M, 'TokenAuthConn.Adapter.__init__', prop=PROP, spec_globals=G, level='top',
             params={'self': T.obj('ak.conn_http:TokenAuthConn.Adapter'), 'token': T.str, 'token_descr': T.none},
             ensures={'credentials': "self.header == 'Bearer ' + token"},
             modifies=['self.token_descr', 'self.header'], raises={}),
    Contract(M, 'RequestAdapterAddPathPrefix.process_req_args', prop=PROP, spec_globals=G, level='top',
             params={'self': PREFIX(), 'req_args': REQ_ARGS(HEADERS_NOAUTH)},
             ensures={'effect': "req_args.path == prefixed(self.prefix, old(req_args.path))",
                      'headers_kept': "req_args.headers == old(req_args.headers)"},
             modifies=['req_args.path'], raises={}),
    Contract(M, '_HttpConnBase.__init__', prop=PROP, spec_globals=G, level='top',
             params={'self': T.obj('ak.conn_http:HttpConn'), 'adapters': ADAPTER_ARG, 'conn_data': PARENTS},
             ensures={
                 'chain': "same_objects(self.adapters, chain_of(as_list(old(adapters)), old(conn_data.adapters)))",
                 'fresh_list': "self.adapters is not conn_data.adapters and self.adapters is not adapters "
                               "and self.own_adapters is not adapters",
                 'shared_impl': "self.conn_impl is conn_data.conn_impl and self.parent_conn is conn_data",
                 'parent_untouched': "same_objects(conn_data.adapters, old(conn_data.adapters)) and "
                                     "same_objects(conn_data.own_adapters, old(conn_data.own_adapters)) and "
                                     "conn_data.conn_impl is old(conn_data.conn_impl)",
                 'caller_list_untouched': "not isinstance(adapters, (list, tuple)) or same_objects(adapters, old(adapters))",
             },
             raises={}, max_paths=2000),
    Contract(M, '_HttpConnBase.add_adapter', prop=PROP, spec_globals=G, level='top',
             params={'self': PARENTS, 'adapter': MARK()},
             ensures={'appended': "same_objects(self.adapters, chain_of(old(self.adapters), [adapter]))",
                      'impl_kept': "self.conn_impl is old(self.conn_impl)"},
             modifies=['self.adapters', 'self.descr'], raises={}),
    # the three authenticated connections: one adapter of the right kind, carrying the credentials given, put in FRONT of the
    # chain inherited from the wrapped connection; the wrapped connection is left as it was
    Contract(M, 'BAuthConn.__init__', prop=PROP, spec_globals=G, level='top',
             params={'self': T.obj('ak.conn_http:BAuthConn'), 'conn_data': PARENTS, 'login': T.str, 'password': T.str},
             ensures={
                 'adapter': "isinstance(self.adapters[0], BAuthAdapter) and "
                            "self.adapters[0].bauth_header == b'Basic ' + b64_text(login + ':' + password)",
                 'chain': "same_objects(self.adapters[1:], old(conn_data.adapters)) and len(self.own_adapters) == 1 "
                          "and self.own_adapters[0] is self.adapters[0]",
                 'shared_impl': "self.conn_impl is conn_data.conn_impl and self.parent_conn is conn_data",
                 'parent_untouched': "same_objects(conn_data.adapters, old(conn_data.adapters)) and "
                                     "conn_data.conn_impl is old(conn_data.conn_impl) and self.adapters is not conn_data.adapters",
             },
             raises={}, max_paths=2000),
    Contract(M, 'ClientAuthConn.__init__', prop=PROP, spec_globals=G, level='top',
             params={'self': T.obj('ak.conn_http:ClientAuthConn'), 'conn_data': PARENTS, 'client_name': T.str,
                     'client_id': T.str, 'client_secret': T.str},
             ensures={
                 'adapter': "isinstance(self.adapters[0], ClientAuthAdapter) and "
                            "self.adapters[0].bauth_header == b'Basic ' + b64_text(client_id + ':' + client_secret)",
                 'chain': "same_objects(self.adapters[1:], old(conn_data.adapters)) and len(self.own_adapters) == 1 "
                          "and self.own_adapters[0] is self.adapters[0]",
                 'shared_impl': "self.conn_impl is conn_data.conn_impl and self.parent_conn is conn_data",
                 'parent_untouched': "same_objects(conn_data.adapters, old(conn_data.adapters)) and "
                                     "conn_data.conn_impl is old(conn_data.conn_impl) and self.adapters is not conn_data.adapters",
             },
             raises={}, max_paths=2000),
    Contract(M, 'TokenAuthConn.__init__', prop=PROP, spec_globals=G, level='top',
             params={'self': T.obj('ak.conn_http:TokenAuthConn'), 'conn_data': PARENTS, 'token': T.str,
                     'token_descr': T.one_of(T.none, T.str)},
             ensures={
                 'adapter': "isinstance(self.adapters[0], TokenAuthAdapter) and self.adapters[0].header == 'Bearer ' + token",
                 'chain': "same_objects(self.adapters[1:], old(conn_data.adapters)) and len(self.own_adapters) == 1 "
                          "and self.own_adapters[0] is self.adapters[0]",
                 'shared_impl': "self.conn_impl is conn_data.conn_impl and self.parent_conn is conn_data",
                 'parent_untouched': "same_objects(conn_data.adapters, old(conn_data.adapters)) and "
                                     "conn_data.conn_impl is old(conn_data.conn_impl) and self.adapters is not conn_data.adapters",
             },
             raises={}, max_paths=2000),
    Contract(M, 'RequestAdapterAddPathPrefix.__init__', prop=PROP, spec_globals=G, level='sup',
             params={'self': T.obj('ak.conn_http:RequestAdapterAddPathPrefix'), 'prefix': T.str},
             ensures={'prefix_stored': "self.prefix == prefix"}, modifies=['self.prefix'], raises={}),
    Contract(MM, 'MCallerHttp.clone', prop=PROP, spec_globals=G, level='top',
             params={'self': T.obj('ak.mcaller_http:MCallerHttp', http_conn=PARENTS, _mc_conns_by_prefix=T.dict({})),
                     'http_conn_adapters': T.one_of(T.none, MARK(), T.list(), T.list(MARK()), T.list(PREFIX(), MARK()),
                                                    T.tuple(MARK()), T.tuple(PREFIX(), MARK()))},
             ensures={
                 'chain': "same_objects(result.http_conn.adapters, chain_of("
                          "[] if http_conn_adapters is None else as_list(http_conn_adapters), old(self.http_conn.adapters)))",
                 'shared_impl': "result.http_conn.conn_impl is self.http_conn.conn_impl",
                 'own_cache': "result._mc_conns_by_prefix is not self._mc_conns_by_prefix and len(result._mc_conns_by_prefix) == 0",
                 'original_untouched': "same_objects(self.http_conn.adapters, old(self.http_conn.adapters)) and "
                                       "self.http_conn is old(self.http_conn) and "
                                       "self._mc_conns_by_prefix == old(self._mc_conns_by_prefix)",
                 'fresh_list': "result.http_conn.adapters is not self.http_conn.adapters",
             },
             raises={}, max_paths=2000),
    # the prefix of do_request up to the construction of urllib.request.Request: request assembly
    Contract(M, '_HttpConnImpl.do_request', name='_HttpConnImpl.do_request/assembly', prop=PROP, spec_globals=G,
             level='top',
             body_slice={'stop_before': 'urllib.request.Request(',
                         'result_call': {'func': 'urllib.request.Request', 'pick': ['url', 'method', 'data', 'headers'],
                                         'signature': ['url', 'data', 'headers', 'origin_req_host', 'unverifiable', 'method']}},
             params={'self': T.obj('ak.conn_http:_HttpConnImpl', address=T.str, _cur_req_id=T.none),
                     'adapters': T.one_of(T.list(), T.list(PREFIX()), T.list(BAUTH()), T.list(PREFIX(), TAUTH()),
                                          T.list(PREFIX(), PREFIX()), T.list(CAUTH(), PREFIX())),
                     'path': T.str, 'method': T.one_of(T.none, T.const('get'), T.const('PATCH')),
                     'params': T.one_of(T.none, T.opaque('params', pytype=dict)),
                     'data': T.one_of(T.none, T.str, T.opaque('bytes', pytype=bytes), T.opaque('struct', pytype=dict)),
                     'headers': T.one_of(T.none, T.dict({}), T.dict({'Accept': T.str}), T.dict({'Content-Type': T.str})),
                     'raw_response': T.const(False)},
             ensures={
                 'url': "result[0] == url_of(self.address, chain_path(adapters, path), params)",
                 'method': "result[1] == method_of(method, data)",
                 'body': "result[2] == body_of(data)",
                 'auth': "auth_headers(adapters) == ([result[3]['Authorization']] if 'Authorization' in result[3] else [])",
                 'content_type': "not structured(data) or result[3]['Content-Type'] == "
                                 "(headers['Content-Type'] if headers and 'Content-Type' in headers else 'application/json')",
                 'caller_headers_passed': "headers is None or all(result[3][k] == headers[k] for k in headers)",
                 'caller_objects_untouched': "headers == old(headers) and params is old(params) and data is old(data)",
                 'adapters_untouched': "same_objects(adapters, old(adapters))",
             },
             raises={}, max_paths=20000,
             note="bounded-symbolic in the chain: 6 adapter lists of length 0..2 with symbolic contents"),
]


class TagAdapter(conn_http.RequestAdapter):
    """adapter whose response processing is observable: wraps the value it is given"""

    def __init__(self, tag):
        self.tag = tag

    def process_response(self, return_value):
        return (self.tag, return_value)


class StubResponse:
    """what the dropped network part leaves behind: a response whose body has been read"""

    def __init__(self, data):
        self.data = data


def processed(adapters, value):
    """response processors applied in REVERSE order of the chain"""
    v = value
    for a in reversed(adapters):
        v = a.process_response(v)
    return v


TAG = lambda: T.obj(__name__ + ':TagAdapter', tag=T.str)     # noqa

CONTRACTS.append(
    # the suffix of do_request after the response has been read: decoding + response processors
    Contract(M, '_HttpConnImpl.do_request', name='_HttpConnImpl.do_request/response', prop=PROP, spec_globals=G,
             level='top',
             body_slice={'start_after': 'self._log_response(response, url)', 'args': ['self', 'adapters', 'raw_response', 'response']},
             params={'self': T.obj('ak.conn_http:_HttpConnImpl', address=T.str, _cur_req_id=T.none),
                     'adapters': T.one_of(T.list(), T.list(TAG()), T.list(TAG(), TAG()), T.list(TAG(), MARK(), TAG())),
                     'raw_response': T.bool,
                     'response': T.obj(__name__ + ':StubResponse', data=T.const(b''))},
             ensures={
                 'processors_in_reverse_order': "result == processed(adapters, response if raw_response else '')",
             },
             raises={}, modifies=[],
             note="bounded-symbolic in the chain (<= 3 adapters); empty response body (json decoding is library code)"))


def _delegates(verb):
    """the verb method hands the connection's whole chain and the caller's arguments, untouched, to the root's
    do_request exactly once and returns what it returns"""
    def check(events, args, result):
        calls = [e for e in events if e[0] == 'call' and e[1] == '_HttpConnImpl.do_request/abstract']
        if len(calls) != 1:
            return False
        b, res = calls[0][2], calls[0][3]
        me = args['self']
        return (b['self'] is me.fields['conn_impl'] and b['adapters'] is me.fields['adapters'] and b['path'] is args['path']
                and b['method'] == verb and b['params'] is args['params'] and b['data'] is args['data']
                and b['headers'] is args['headers'] and b['raw_response'] is args['raw_response'] and result is res)
    return check


CONTRACTS.append(
    Contract(M, '_HttpConnImpl.do_request', name='_HttpConnImpl.do_request/abstract', prop=PROP, spec_globals=G, level='sup',
             params={}, ensures={}, raises={}, result_spec=T.opaque('response'),
             note="call-site abstraction only (no clause): stands for the network round trip when the verb methods are verified"))
CONTRACTS[-1].external = 'abstraction'      # used at call sites only, nothing to verify

for _verb in ('get', 'post', 'put', 'delete', 'patch'):
    CONTRACTS.append(
        Contract(M, '_HttpConnBase.' + _verb, prop=PROP, spec_globals=G, level='top',
                 params={'self': T.one_of(CONN(), CONN(PREFIX(), MARK())), 'path': T.str,
                         'params': T.one_of(T.none, T.opaque('params', pytype=dict)),
                         'data': T.one_of(T.none, T.opaque('data')), 'headers': T.one_of(T.none, T.dict({'Accept': T.str})),
                         'raw_response': T.bool},
                 event_clauses={'delegates_whole_chain_once': _delegates(_verb.upper())},
                 raises={}, modifies=[]))


def chain_path(adapters, path):
    """prefixes applied in list order: the first adapter's prefix ends up innermost"""
    p = path
    for a in adapters:
        if isinstance(a, conn_http.RequestAdapterAddPathPrefix):
            p = prefixed(a.prefix, p)
    return p


def auth_headers(adapters):
    out = []
    for a in adapters:
        if isinstance(a, (conn_http.BAuthConn.Adapter, conn_http.ClientAuthConn.Adapter)):
            out.append(a.bauth_header)
        elif isinstance(a, conn_http.TokenAuthConn.Adapter):
            out.append(a.header)
    return out


BOUNDED_SYMBOLIC = {'_HttpConnImpl.do_request/assembly': 2, '_HttpConnImpl.do_request/response': 3,
                    'BAuthConn.__init__': 2, 'ClientAuthConn.__init__': 2, 'TokenAuthConn.__init__': 2}     # length of the inherited chain

USES = {('_HttpConnBase.' + v): ['_HttpConnImpl.do_request/abstract'] for v in ('get', 'post', 'put', 'delete', 'patch')}

ASSUMED_LIBRARY = [
    "base64.b64encode / urlencode / json.dumps are pure functions of their argument (uninterpreted) and do not mutate it; "
    "base64 decode(encode(x)) == x",
    "threading / ssl / urllib opener construction is outside the analysed slices",
]


# ---- syntactic obligations ------------------------------------------------------------
def _responses_reversed(world=None):
    import inspect
    src = inspect.getsource(conn_http._HttpConnImpl.do_request)
    import textwrap
    tree = ast.parse(textwrap.dedent(src))
    loops = [n for n in ast.walk(tree) if isinstance(n, ast.For) and 'process_response' in ast.unparse(n)]
    if len(loops) != 1:
        return None, {'detail': f"{len(loops)} response loops"}
    lp = loops[0]
    ok = ast.unparse(lp.iter) == 'adapters[::-1]' and \
        [ast.unparse(s) for s in lp.body] == [f"ret_val = {ast.unparse(lp.target)}.process_response(ret_val)"]
    return ok, {'loop': ast.unparse(lp)}


STATIC_OBLIGATIONS = {
    'C17.do_request.response_processors_reverse_order': (_responses_reversed, 'top'),
}


def lib_models():
    import z3
    from pyvc.values import SStr, Sq, SBytes, SOpaque, is_strlike
    from pyvc.ops import str_z3, OPAQUE, Unsupported
    from urllib.parse import urlencode
    import json

    _b64 = z3.Function('b64_of_text', z3.StringSort(), z3.StringSort())
    _ue = z3.Function('urlencode', OPAQUE, z3.StringSort())
    _js = z3.Function('json_dumps', OPAQUE, z3.StringSort())

    def m_b64encode(I, args, kwargs):
        (b,) = args
        if isinstance(b, bytes):
            return base64.b64encode(b)
        if isinstance(b, SBytes):
            return SBytes(SStr([Sq(_b64(str_z3(b.text)))]))
        raise Unsupported("b64encode of a non-text bytes value")

    def m_b64_text(I, args, kwargs):
        (s,) = args
        if isinstance(s, str):
            return base64.b64encode(s.encode('utf-8'))
        return SBytes(SStr([Sq(_b64(str_z3(s)))]))

    # the other encoders of the base64 module are different functions of the text (nothing relates them to b64_of_text):
    # code that switches to one of them no longer satisfies "the header decodes to the configured credentials"
    def other_encoder(name):
        fn = z3.Function(name + '_of_text', z3.StringSort(), z3.StringSort())

        def model(I, args, kwargs):
            (b,) = args
            if isinstance(b, bytes):
                return getattr(base64, name)(b)
            if isinstance(b, SBytes):
                return SBytes(SStr([Sq(fn(str_z3(b.text)))]))
            raise Unsupported(f"{name} of a non-text bytes value")
        return model

    def opq(v):
        if not isinstance(v, SOpaque):
            raise Unsupported("urlencode / json.dumps of a non-opaque value")
        return z3.Const('val_' + v.name, OPAQUE)

    def m_urlencode(I, args, kwargs):
        return SStr([Sq(_ue(opq(args[0])))])

    def m_json(I, args, kwargs):
        return SStr([Sq(_js(opq(args[0])))])

    return {base64.b64encode: m_b64encode, b64_text: m_b64_text, urlencode: m_urlencode, urlencode_spec: m_urlencode,
            json.dumps: m_json, json_spec: m_json,
            base64.urlsafe_b64encode: other_encoder('urlsafe_b64encode'),
            base64.standard_b64encode: m_b64encode,
            base64.b32encode: other_encoder('b32encode'), base64.b16encode: other_encoder('b16encode')}


CANARIES = [
    {'name': 'bauth_conn_swaps_credentials', 'module': M, 'function': 'BAuthConn.__init__',
     'old': 'super().__init__(self.Adapter(login, password), conn_data)',
     'new': 'super().__init__(self.Adapter(password, login), conn_data)',
     'expect': 'C17.BAuthConn.__init__.adapter'},
    {'name': 'token_conn_drops_inherited_chain', 'module': M, 'function': 'TokenAuthConn.__init__',
     'old': '            conn_data)', 'new': '            conn_data.conn_impl)',
     'expect': 'C17.TokenAuthConn.__init__.chain'},
    {'name': 'derived_aliases_parent_list', 'module': M, 'function': '_HttpConnBase.__init__',
     'old': 'self.adapters = self.own_adapters + self.parent_conn.adapters',
     'new': 'self.adapters = (self.own_adapters + self.parent_conn.adapters) if self.own_adapters else self.parent_conn.adapters',
     'expect': 'C17._HttpConnBase.__init__.fresh_list'},
    {'name': 'prefix_keeps_double_slash', 'module': M, 'function': 'RequestAdapterAddPathPrefix.process_req_args',
     'old': "suffix_path = suffix_path[1:]", 'new': "suffix_path = suffix_path",
     'expect': 'C17.RequestAdapterAddPathPrefix.process_req_args.effect'},
    {'name': 'clone_shares_cache', 'module': MM, 'function': 'MCallerHttp.clone',
     'old': 'return type(self)(cloned_http_conn)',
     'new': 'c = type(self)(cloned_http_conn)\n        c._mc_conns_by_prefix = self._mc_conns_by_prefix\n        return c',
     'expect': 'C17.MCallerHttp.clone.own_cache'},
]
