"""C04 - proved sub-obligation: the span rule of tree nodes (TElement.__init__ in ak/llparser.py): an inner node
starts at its first child and ends where its last token ends (trailing children that matched nothing sit at the
following token and do not extend it); an explicit span is kept.  Tokenizer and tree positions as a whole are
decided by harness/c04.py."""
from pyvc.contract import Contract, T
from contracts.c01_stack import POS, LEAF   # noqa

PROP = 'C04'
M = 'ak.llparser'
G = globals()
CONTRACTS = []


# ---- C04: span rule of tree nodes ---------------------------------------------------------
def empty(e):
    return e.start_pos.coords == e.end_pos.coords


def last_nonempty_end(children):
    """end of the last child that matched something; the last child's end when none did"""
    end = children[-1].end_pos
    for c in children:
        if not empty(c):
            end = c.end_pos
    return end


def NODE(start, end):
    return T.obj('ak.llparser:TElement', name=T.str, value=T.none, _is_leaf=T.const(True), start_pos=start, end_pos=end)


CONTRACTS += [
    Contract(M, 'TElement.__init__', name='TElement.__init__/inner', prop=PROP, spec_globals=G, level='top',
             params={'self': T.obj('ak.llparser:TElement'), 'name': T.str,
                     'value': T.one_of(T.list(LEAF()), T.list(LEAF(), LEAF()), T.list(LEAF(), LEAF(), LEAF())),
                     'start_pos': T.none, 'end_pos': T.none, 'is_leaf': T.none},
             ensures={
                 'starts_at_first_child': "self.start_pos is value[0].start_pos",
                 'ends_at_last_token': "self.end_pos is last_nonempty_end(value)",
                 'inner_node': "not self._is_leaf and self.value is value and self.name == name",
             },
             raises={}, modifies=['self.name', 'self.value', 'self._is_leaf', 'self.start_pos', 'self.end_pos']),
    Contract(M, 'TElement.__init__', name='TElement.__init__/leaf', prop=PROP, spec_globals=G, level='top',
             params={'self': T.obj('ak.llparser:TElement'), 'name': T.str, 'value': T.one_of(T.str, T.none),
                     'start_pos': POS(), 'end_pos': POS(), 'is_leaf': T.none},
             ensures={
                 'explicit_span_kept': "self.start_pos is start_pos and self.end_pos is end_pos",
                 'leaf': "self._is_leaf and self.value == value and self.name == name",
             },
             raises={}, modifies=['self.name', 'self.value', 'self._is_leaf', 'self.start_pos', 'self.end_pos']),
]

def ANYLEAVES():
    return T.symobjlist('ak.llparser:TElement', name=T.str, value=T.str, _is_leaf=T.const(True),
                        start_pos=POS(), end_pos=POS())


def same_pos(p, q):
    return p.coords == q.coords and p.src_name == q.src_name


CONTRACTS += [
    # the span rule for a node with ANY number of children: ghost k = an arbitrary child index
    Contract(M, 'TElement.__init__', name='TElement.__init__/inner/any_length', prop=PROP, spec_globals=G, level='top',
             params={'self': T.obj('ak.llparser:TElement'), 'name': T.str, 'value': ANYLEAVES(),
                     'start_pos': T.none, 'end_pos': T.none, 'is_leaf': T.none, 'k': T.int},
             requires=["len(value) > 0"],
             ensures={
                 'starts_at_first_child': "self.start_pos is value[0].start_pos",
                 'ends_at_last_token': "not (0 <= k < len(value) and not empty(value[k]) "
                                       "and all(empty(value[j]) for j in range(k + 1, len(value)))) "
                                       "or same_pos(self.end_pos, value[k].end_pos)",
                 'nothing_matched': "not all(empty(c) for c in value) or same_pos(self.end_pos, value[-1].end_pos)",
                 'inner_node': "not self._is_leaf and self.value is value and self.name == name",
             },
             invariants={0: {'inv': "all(empty(value[j]) for j in range(len(value) - __i, len(value))) "
                                    "and self.end_pos is value[-1].end_pos"}},
             raises={}, modifies=['self.name', 'self.value', 'self._is_leaf', 'self.start_pos', 'self.end_pos']),
]

# ---- get_orig_text for a text given as a list of lines of ANY length
from pyvc.speclib import solver_modules as _solver_modules
_z3, _folds, _parse, _Env = _solver_modules()
_LINELEN = _folds.PrefixSum('linelen', lambda V, zi: _z3.Length(V.field('value', zi)) + 1)
_LINECAT = _folds.PrefixConcat('linecat', lambda V, zi: _z3.Concat(V.field('value', zi), _z3.StringVal("\n")), _LINELEN)
_LINECAT.sep = "\n"          # "\n".join(lines) in the code is this fold without its last separator


def linecat(lines, i):
    """the first i lines, each followed by a line break"""
    out = ""
    for x in lines[:i]:
        out = out + x + "\n"
    return out


def whole_text(lines):
    return "\n".join(lines)


def _whole_text_model(I, args):
    from pyvc.values import SymList, ListView, SStr, Sq, str_z3
    (L,) = args
    if not isinstance(L, SymList):
        return NotImplemented
    view = ListView(L)
    w = str_z3(_LINECAT.whole(I, view))
    return SStr([Sq(_z3.If(view.n > 0, _z3.SubString(w, 0, _z3.Length(w) - 1), _z3.StringVal("")))])


_whole_text_model.fold = _LINECAT
LINE_MODELS = {'linecat': _folds.prefix_model(_LINECAT), 'whole_text': _whole_text_model}


def offset_of(lines, line0, col0):
    """offset in the whole text of 0-based (line, column)"""
    return len(linecat(lines, line0)) + col0


CONTRACTS += [
    Contract(M, 'TElement.get_orig_text', name='TElement.get_orig_text/lines/any_length', prop=PROP, spec_globals=G, level='top',
             params={'self': T.obj('ak.llparser:TElement', name=T.str, value=T.str, _is_leaf=T.const(True),
                                   start_pos=POS(), end_pos=POS()),
                     'text': T.symstrlist},
             requires=["self.start_pos.coords[0] >= 1 and self.start_pos.coords[1] >= 1 and self.end_pos.coords[1] >= 1",
                       "self.start_pos.coords <= self.end_pos.coords",
                       "self.end_pos.coords[0] <= len(text)",
                       "self.start_pos.coords[1] - 1 <= len(text[self.start_pos.coords[0] - 1])",
                       "self.end_pos.coords[1] - 1 <= len(text[self.end_pos.coords[0] - 1])"],
             ensures={'delimited_region':
                      "result == whole_text(text)[offset_of(text, self.start_pos.coords[0] - 1, self.start_pos.coords[1] - 1):"
                      "offset_of(text, self.end_pos.coords[0] - 1, self.end_pos.coords[1] - 1)]"},
             invariants={0: {'inv': "start_l + 1 <= __i and len(result_lines) == __i - start_l "
                                    "and linecat(text, start_l) + text[start_l][:start_c] + linecat(result_lines, len(result_lines)) "
                                    "== linecat(text, __i)",
                             'havoc': {'result_lines': T.symstrlist}}},
             symlist_models=LINE_MODELS, raises={}, modifies=[]),
]

def _orig_text_sample(rng):
    """a text of 1..6 lines and a span inside it (for the native sampling of the contract)"""
    lines = [''.join(rng.choice('ab ;\t') for _ in range(rng.choice([0, 1, 3, 7]))) for _ in range(rng.randint(1, 6))]
    l1 = rng.randrange(len(lines))
    l2 = rng.randrange(l1, len(lines))
    c1 = rng.randint(0, len(lines[l1]))
    c2 = rng.randint(c1 if l1 == l2 else 0, len(lines[l2]))

    def pos(i, line, col):
        return {'__class__': 'ak.llparser:SrcPos', '__id__': i, 'fields': {'src_name': 'f', 'coords': {'__tuple__': [line, col]}}}
    return {'self': {'__class__': 'ak.llparser:TElement', '__id__': 1,
                     'fields': {'name': 'X', 'value': 'v', '_is_leaf': True, 'start_pos': pos(2, l1 + 1, c1 + 1),
                                'end_pos': pos(3, l2 + 1, c2 + 1)}},
            'text': lines}


CONTRACTS[-1].sampler = _orig_text_sample

BOUNDED_SYMBOLIC = {'TElement.__init__/inner': 3}
USES = {}
ASSUMED_LIBRARY = []
NATIVE_SAMPLING = {'select': 'any_length', 'n': 150}
CANARIES = [
    {'name': 'anylen_orig_text_one_char_too_many', 'module': M, 'function': 'TElement.get_orig_text',
     'verify': 'TElement.get_orig_text/lines/any_length',
     'old': 'result_lines.append(lines[end_l][:end_c])', 'new': 'result_lines.append(lines[end_l][:end_c + 1])',
     'unproved_is_enough': True, 'expect': 'C04.TElement.get_orig_text/lines/any_length.delimited_region'},
    {'name': 'anylen_orig_text_repeats_first_line', 'module': M, 'function': 'TElement.get_orig_text',
     'verify': 'TElement.get_orig_text/lines/any_length',
     'old': 'for i in range(start_l+1, end_l):', 'new': 'for i in range(start_l, end_l):',
     'unproved_is_enough': True, 'expect': 'C04.TElement.get_orig_text/lines/any_length.loop0.inv_entry'},
    {'name': 'anylen_inner_span_ends_at_last_child', 'module': M, 'function': 'TElement.__init__',
     'verify': 'TElement.__init__/inner/any_length',
     'old': 'if child.start_pos.coords != child.end_pos.coords:', 'new': 'if True:',
     'unproved_is_enough': True, 'expect': 'C04.TElement.__init__/inner/any_length.ends_at_last_token'},
    {'name': 'anylen_inner_span_scans_forward', 'module': M, 'function': 'TElement.__init__',
     'verify': 'TElement.__init__/inner/any_length',
     'old': 'for child in reversed(self.value):', 'new': 'for child in self.value:',
     'unproved_is_enough': True, 'expect': 'C04.TElement.__init__/inner/any_length.ends_at_last_token'},
    {'name': 'inner_span_ends_at_last_child', 'module': M, 'function': 'TElement.__init__', 'verify': 'TElement.__init__/inner',
     'old': 'if child.start_pos.coords != child.end_pos.coords:', 'new': 'if True:',
     'expect': 'C04.TElement.__init__/inner.ends_at_last_token'},
]
