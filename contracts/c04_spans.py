"""C04 - proved sub-obligation: the span rule of tree nodes (TElement.__init__ in ak/llparser.py): an inner node
starts at its first child and ends where its last token ends (trailing children that matched nothing sit at the
following token and do not extend it); an explicit span is kept.  Tokenizer and tree positions as a whole are
decided by harness/c04.py."""
from pyvc.contract import Contract, T
from contracts.c01_stack import POS, LEAF   # noqa

PROP = 'C04'
M = 'ak.llparser'
G = globals()
CONTRACTS = []


# ---- C04: span rule of tree nodes ---------------------------------------------------------
def empty(e):
    return e.start_pos.coords == e.end_pos.coords


def last_nonempty_end(children):
    """end of the last child that matched something; the last child's end when none did"""
    end = children[-1].end_pos
    for c in children:
        if not empty(c):
            end = c.end_pos
    return end


def NODE(start, end):
    return T.obj('ak.llparser:TElement', name=T.str, value=T.none, _is_leaf=T.const(True), start_pos=start, end_pos=end)


CONTRACTS += [
    Contract(M, 'TElement.__init__', name='TElement.__init__/inner', prop=PROP, spec_globals=G, level='top',
             params={'self': T.obj('ak.llparser:TElement'), 'name': T.str,
                     'value': T.one_of(T.list(LEAF()), T.list(LEAF(), LEAF()), T.list(LEAF(), LEAF(), LEAF())),
                     'start_pos': T.none, 'end_pos': T.none, 'is_leaf': T.none},
             ensures={
                 'starts_at_first_child': "self.start_pos is value[0].start_pos",
                 'ends_at_last_token': "self.end_pos is last_nonempty_end(value)",
                 'inner_node': "not self._is_leaf and self.value is value and self.name == name",
             },
             raises={}, modifies=['self.name', 'self.value', 'self._is_leaf', 'self.start_pos', 'self.end_pos']),
    Contract(M, 'TElement.__init__', name='TElement.__init__/leaf', prop=PROP, spec_globals=G, level='top',
             params={'self': T.obj('ak.llparser:TElement'), 'name': T.str, 'value': T.one_of(T.str, T.none),
                     'start_pos': POS(), 'end_pos': POS(), 'is_leaf': T.none},
             ensures={
                 'explicit_span_kept': "self.start_pos is start_pos and self.end_pos is end_pos",
                 'leaf': "self._is_leaf and self.value == value and self.name == name",
             },
             raises={}, modifies=['self.name', 'self.value', 'self._is_leaf', 'self.start_pos', 'self.end_pos']),
]

BOUNDED_SYMBOLIC = {'TElement.__init__/inner': 3}
USES = {}
ASSUMED_LIBRARY = []
CANARIES = [
    {'name': 'inner_span_ends_at_last_child', 'module': M, 'function': 'TElement.__init__', 'verify': 'TElement.__init__/inner',
     'old': 'if child.start_pos.coords != child.end_pos.coords:', 'new': 'if True:',
     'expect': 'C04.TElement.__init__/inner.ends_at_last_token'},
]
