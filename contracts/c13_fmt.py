"""C13 - proved sub-obligation: the column description text produced by ReprColumn.to_fmt_str follows the
documented grammar for every name / modifier / break-by / width combination.  The round trip through the parser
and the table life cycle are decided by harness/c13.py."""
from pyvc.contract import Contract, T
from ak import ppobj

PROP = 'C13'
MP = 'ak.ppobj'
G = globals()
CONTRACTS = []


def _col(name, mod, brk, mn, mx, w):
    return T.obj('ak.ppobj:ReprColumn', field=T.opaque('field'), name=name, fmt_modifier=mod, break_by=brk,
                 min_width=mn, max_width=mx, width=w)


def col_fmt(c):
    """one column description of the documented grammar: name ['/' modifier] ['!'] ':' min ['-' max ['(' width ')']]"""
    s = c.name
    if c.fmt_modifier is not None:
        s = s + "/" + c.fmt_modifier
    if c.break_by:
        s = s + "!"
    if c.min_width == c.max_width:
        return s + ":" + str(c.min_width)
    s = s + ":" + str(c.min_width) + "-" + str(c.max_width)
    if c.width is not None:
        s = s + "(" + str(c.width) + ")"
    return s


CONTRACTS.append(
    Contract(MP, 'ReprColumn.to_fmt_str', prop=PROP, spec_globals=G, level='top',
             params={'self': _col(T.str, T.one_of(T.none, T.str), T.bool, T.nat, T.nat, T.one_of(T.none, T.nat))},
             ensures={'grammar': "result == col_fmt(self)"},
             raises={}, modifies=[]))


BOUNDED_SYMBOLIC = {}
USES = {}
ASSUMED_LIBRARY = []
CANARIES = [
    {'name': 'break_by_mark_after_width', 'module': MP, 'function': 'ReprColumn.to_fmt_str',
     'old': 'if self.break_by:\n            fmt_str += "!"', 'new': 'if self.break_by and self.fmt_modifier is None:\n            fmt_str += "!"',
     'expect': 'C13.ReprColumn.to_fmt_str.grammar'},
]
