"""C07 - proved sub-obligations on ak/ghist.py ComponentBump: when a pin change is trivial, and which component
builds a bump ships (every report-related build reachable from the new pin that is not the old pin or one of its
ancestors) - bounded-symbolic over the build graphs listed below (chains, a fork with merge, two old pins).
Whole histories are decided by harness/c07.py."""
from pyvc.contract import Contract, T
from ak import ghist

PROP = 'C07'
M = 'ak.ghist'
ME = __name__
G = globals()


class RB:
    """a report build of the component: iid and parent builds"""

    def __init__(self, iid, parent_rbuilds):
        self.iid = iid
        self.parent_rbuilds = parent_rbuilds


def ancestors_incl(rbs):
    out = {}
    todo = list(rbs)
    while todo:
        rb = todo.pop()
        if rb.iid not in out:
            out[rb.iid] = rb
            todo = todo + list(rb.parent_rbuilds.values())
    return out


def shipped(bump):
    """builds reachable from the new pin, minus everything the old pins already contained"""
    if bump.to_rbuild is None:
        return {}
    old = ancestors_incl(bump.from_rbuilds.values())
    new = ancestors_incl([bump.to_rbuild])
    return {k: v for k, v in new.items() if k not in old}


def same_builds(a, b):
    return sorted(a.keys()) == sorted(b.keys()) and all(a[k] is b[k] for k in a)


def _graph(kind):
    """concrete build graphs with symbolic-free structure (ids concrete: the DFS orders parents by iid)"""
    def mk(I, name):
        from pyvc.values import SObj, SDict, SList

        def rb(iid, parents):
            return SObj(RB, {'iid': iid, 'parent_rbuilds': SDict({p.fields['iid']: p for p in parents})})
        b1 = rb(1, [])
        b2 = rb(2, [b1])
        b3 = rb(3, [b1])
        b4 = rb(4, [b2, b3])
        b5 = rb(5, [b4])
        cases = {
            'chain_1_to_2': ([b1], b2), 'chain_2_to_5': ([b2], b5), 'same': ([b2], b2),
            'fork_arm_then_merge': ([b3], b4), 'two_old_pins': ([b2, b3], b5), 'no_old_pin': ([], b4),
            'component_removed': ([b2], None), 'never_present': ([], None),
        }
        olds, new = cases[kind]
        return SObj(ghist.ComponentBump, {'from_build_nums': SList([]), 'to_buildnum': None,
                                          'from_rbuilds': SDict({o.fields['iid']: o for o in olds}), 'to_rbuild': new},
                    tag=name)
    return T.custom(kind, mk)


KINDS = ['chain_1_to_2', 'chain_2_to_5', 'same', 'fork_arm_then_merge', 'two_old_pins', 'no_old_pin', 'component_removed',
         'never_present']
BUMPS = T.one_of(*[_graph(k) for k in KINDS])

CONTRACTS = [
    Contract(M, 'ComponentBump.get_rbuilds_in_bump', prop=PROP, spec_globals=G, level='top',
             params={'self': BUMPS},
             ensures={'ships_exactly_the_new_builds': "same_builds(result, shipped(self))"},
             raises={}, modifies=[]),
    Contract(M, 'ComponentBump.is_trivial', prop=PROP, spec_globals=G, level='sup',
             params={'self': BUMPS},
             ensures={'trivial_iff_nothing_moves': "result == ((self.to_rbuild is None and len(self.from_rbuilds) == 0) or "
                                                   "(self.to_rbuild is not None and self.to_rbuild.iid in self.from_rbuilds))"},
             raises={}, modifies=[]),
]

BOUNDED_SYMBOLIC = {'ComponentBump.get_rbuilds_in_bump': 5, 'ComponentBump.is_trivial': 5}
USES = {}
ASSUMED_LIBRARY = []
CANARIES = [
    {'name': 'walk_stops_only_at_old_pins', 'module': M, 'function': 'ComponentBump.get_rbuilds_in_bump',
     'old': 'if cur_rbuild.iid in known_rbuilds_iids:', 'new': 'if cur_rbuild.iid in self.from_rbuilds:',
     'combos': ['fork_arm_then_merge'], 'expect': 'C07.ComponentBump.get_rbuilds_in_bump.ships_exactly_the_new_builds'},
]
