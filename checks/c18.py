"""C18 - objects read from a worksheet match their source cells (bounded, run-time contracts)."""
import time

from vlib.common import finish
from vlib.bounded import Bounded
from harness import c18 as driver
from checks._proof import proof_subobligations

PROP = 'C18'


def run():
    t0 = time.time()
    pv, pu, pe, ppart, passumed = proof_subobligations(PROP, ['contracts.c18_cells'], ['ak.xlsread'])
    b = Bounded(PROP, 'harness.c18')
    driver.run(b)
    nv = driver.variants(b.tier)
    plan = [mode for _v, mode in driver.variant_plan(b.tier)]
    nb, nm, nt = plan.count('base'), plan.count('multi'), plan.count('titles')
    cov = b.coverage(
        rule=f"layout grid enumerated completely: 3-5 titled columns (first k of id:int, name:str, status:int, "
             f"tags:list, ok:bool) in every column order (150) x ranged group none/before/between/after/wide "
             f"(28 columns crossing Z/AA) x stop_on in ('blank all', 'blank first') x ladder/plain = 3000 layouts; "
             f"per layout {nv} sheets ({nb} 'base' + {nm} 'multi' + {nt} 'titles', see below) drawn from "
             f"random.Random('c18:<seed>:<layout>:<variant>'): 0-2 unknown extra "
             f"columns, 0-2 blank-titled (margin) columns at any position, group width 1-4, 0-2 leading blank rows, "
             f"1-5 data rows with blank cells (None, '', ' '), ladder runs of 0-4 blank leading cells, under 'blank all' (60 % of the sheets with a margin column) 1-2 margin-note rows (blank in every titled column, text in a blank-titled column; in ladder sheets only in a column left of the table) followed by further data rows or last, end row and "
             f"0-2 rows of junk after it (or table ending with the sheet); rules: optional (default declared) on "
             f"present and missing columns, external (None rule and (None, None, default)), ranged dict-int / "
             f"dict-str / set-bool (optional, also with no column at all), attribute order independent of column "
             f"order, class with _NUM_ID_ATTRS 0 (45 %), 1, 2 or 3 (id = leading attributes read from present columns; id cells blank as drawn, so ids are often partly blank; 8 % of the wholly blank ids are left blank); plus eight fixed sheets (the 29-column sheet of DESIGN.md Appendix A; a 1-column sheet read with an external first attribute; a B..D table with margins A and E, a margin note next to a gap row and a key attribute; a table read with a two-attribute id whose parts are blank in turn and together; a student/tutor table read into two classes whose column group lies next to the other class's columns; a ladder table read into three classes; a histogram group titled with the ints 0..3; a sheet whose read columns are titled 0, False, True, ' Name  ' and whose group is -1, 0.0, 1). "
             f"'multi' sheets: the attributes of the generated rule set are dealt out (random.Random('c18x:...')) to 2 (75 %) or 3 classes, each with >= 1 attribute read from a present column, the ranged attribute in one class (25 %: in two), 12 % of the columns read by two classes, first attribute of a class a cell attribute in 92 %, _NUM_ID_ATTRS 0-2 per class; the table is read with XlsTableReader(rules_1, rules_2[, rules_3]).iter_table and every clause is demanded of the objects of every class, 'unknown column' meaning named by no class; 40 % of them also get re-typed titles. "
             f"'titles' sheets: title cells re-typed: 45 % the first group of unknown columns titled n, n+1, ... as ints / floats / alternating (n in -2..1 or chosen so that 0 falls inside the group), 0-35 % of the other titled columns titled by an unused value of 0, 0.0, False (55 %) or 1, True, 2, 3, 7, 2.5, -1, 10, 1.0 (the rules name the column by str(value).strip()), 30 % of the remaining string titles padded with blanks, untitled columns None / '' / blanks. "
             f"Every sheet is read by the real iter_table and checked against the reference model; ladder sheets "
             f"are also re-read plain after filling in. non-trivial = >= 2 data rows and >= 1 optional, external "
             f"or ranged attribute",
        exhaustive=False,
        extra={'generated_sheets_outside_preconditions': b.notes.get('rejected_by_preconditions', {})})
    assumptions = [
        "worksheet interface: iter_rows() yields equally long tuples of cells with value, coordinate, row, column, "
        "parent.title (own mock, coordinates by bijective base 26)",
        "title text of a title cell = str(value).strip() for any value that is not None (ints incl. 0, floats incl. "
        "0.0, bools, padded strings); None and blank strings are untitled columns; the rules name columns by that text",
        "several classes on one table: XlsTableReader yields one list per data row with one entry per class; a "
        "column is 'unknown' (candidate for a ranged attribute) iff it is titled and no attribute rule of ANY class "
        "reading the table names it (doc of bind_titles_row); every class has at least one attribute read from a "
        "single cell of a present column; pre-conditions on ids / required columns hold per class",
        "titles are distinct; every required column is present; every cell that is read holds a value the "
        "attribute's reader converts (int / str / bool / list readers with their documented conversion tables; "
        "whitespace-only cells only in str-typed, unknown and blank-titled columns)",
        "'blank all' ends the table at the first row in which every cell of the sheet row is blank (the rule's "
        "name, _row_is_empty(row), doc of read_table); a row blank in the titled columns but filled in a "
        "blank-titled margin column does not end it. For such a row of a plain sheet the entry may be None, an "
        "object matching its blank cells, or absent (only 'the later rows are still produced, in order, with "
        "matching values and origins' is demanded); in a ladder sheet it is an ordinary row whose cells all mean "
        "'same as above' and it is never the first data row",
        "'blank first': first sheet cell and first titled cell of a row are blank together (both readings of "
        "'first' agree)",
        "ladder sheets: interior blank-titled columns are empty in data rows; a run of blank leading cells ends at "
        "a known column or passes a column group as a whole (otherwise the un-keyed origin of a ranged attribute "
        "cannot denote its cells), and is not stopped by a column nobody reads unless the next read column is "
        "filled; the comparison with the filled-in sheet is over the extent the ladder sheet defines",
        "a ladder value taken from a blank cell may be reported at any blank cell between the holding row and "
        "the object's row",
        "classes with key attributes (_NUM_ID_ATTRS = 1..3): every id part is read from a present column. "
        "XlsObject.construct documents None only for a wholly blank id: a row with at least one filled id cell "
        "(after ladder filling) must produce an object whose blank id parts are converted like any blank cell; "
        "the entry of a row whose whole id is blank is not pinned down (None, an object matching its cells, or "
        "absent; an object for all-None id cells is a diagnostic)",
        "optional ranged attribute without any column: declared default == empty container of the reader, so "
        "'declared default' and 'conversion of no cells' coincide",
        "ranged group identity is demanded only up to 'one maximal run of unknown titled columns' when several "
        "runs exist (first-run choice is a diagnostic)",
        f"bounded: {nv} sheets per layout, sheets of at most 5 data rows and 37 columns",
    ]
    cov.update(ppart)
    _seen, _viol = set(), []
    for _v in pv + b.violations():
        if _v.key not in _seen:
            _seen.add(_v.key)
            _viol.append(_v)
    return finish(PROP, 'exploration', _viol, pu, pe + b.errors, cov, passumed + assumptions, t0)
