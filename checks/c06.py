"""C06 - the history report attributes every matching commit to the right build per branch."""
import time

from vlib.common import finish
from vlib.bounded import Bounded
from harness import c06 as driver
from checks._proof import proof_subobligations

PROP = 'C06'


def run():
    t0 = time.time()
    pv, pu, pe, ppart, passumed = proof_subobligations(PROP, ['contracts.c06_order'], ['ak.ghist'])
    b = Bounded(PROP, 'harness.c06')
    driver.run(b)
    fam = b.notes.get('families', {})
    cov = b.coverage(
        rule="single-repository histories on a mock repository (harness/ghist_mock.py), report produced by "
             "ReposCollection.make_reports_data(text) and judged by an independent reachability computation over "
             "the commit DAG. (1) exhaustive small scope: every DAG over n commits (each commit has 0, 1 or 2 "
             "smaller-numbered parents; several roots and unreachable commits included) x every placement of the "
             "branch heads x every set of build-tagged commits x every non-empty set of matching commits: "
             "n=1,2,3 with {release/1.0, master} and {release/1.0, release/1.1, master}; n=4 (only the DAG x heads pairs "
             "in which every commit is reachable from some head) with {release/1.0, master} and {release/9.0, release/10.0}"
             + (" and {release/1.0, release/1.1, master}" if b.tier == 'thorough' else "") +
             f"; (2) {driver.n_random(b.tier)} seeded cases (VERIF_SEED): DAGs of 3-12 commits, p(merge)=.25, 1-2 "
             "roots, 1-3 release branches (numeric-aware names 9.5 < 10.2 < 10.10, 2.30) + master in shuffled ref "
             "order, heads anywhere / coinciding / near the tip, build tags on 0-4 commits plus foreign tags and "
             "double tags, 1-3 matching messages (incl. multi-line), 2 search texts (one a prefix of the other), "
             "commit times inside 1 hour .. 29 days, 15 % with clock skew; (3) the 20 histories x texts of "
             "tests/test_ghist.py; (4) the search text is taken as it is: exhaustive n=3 with {release/1.0, master}"
             + (" and {release/1.0, release/1.1, master}" if b.tier == 'thorough' else "") +
             " for the text 'BUG-1 ' (trailing blank) and three messages per commit ('x', 'BUG-1 fix' containing the "
             f"text, 'BUG-12' containing only the stripped text); {driver.n_verbatim(b.tier)} seeded cases over the "
             "DAGs of (2) with the messages rewritten around a search text that is (3 of 4) an id with leading "
             "and/or trailing whitespace (blank, two blanks, tab, newline) or (1 of 4) an id with pattern characters "
             "(. * ? [ ] $ ^ | \\d ( )), in another case, or with an inner blank: 1-3 commits contain the text, 1-3 "
             "others contain only a normalised form of it (the stripped text as a prefix of another id, at the end "
             "of the message, followed by a different whitespace character, in another case, matching as a "
             f"pattern); (5) {driver.n_old(b.tier)} seeded cases over the DAGs of (2) with commit times spread over "
             "31-45 days and every branch head among the commits of the last 29 days; (6) branch names one of which "
             "is a proper prefix of another (numeric-aware order: the prefix first): exhaustive small scope as in (1) "
             "with the names, in this order of declaration, " +
             '; '.join(f"n={n} {names}" for _, n, names in driver.PREFIX_NAME_LISTS_QUICK +
                       (driver.PREFIX_NAME_LISTS_THOROUGH if b.tier == 'thorough' else [])) +
             f"; {driver.n_prefix_names(b.tier)} seeded cases over the DAGs of (2) with 2-3 release branches "
             "(+ master in 4 of 5) named release/<stem><numbers joined by one of . - _ />, stem one of '', rel-, r_, "
             "lts/: a number tuple t of 1-2 numbers, t continued by one number, and one of: t continued by two "
             "numbers, a sibling differing in the last number (9 against 10), a shorter prefix of t, a name continued "
             "by a word (rc, hotfix); refs declared in shuffled order; in half of the cases the heads of t and of its "
             "continuation sit on two commits neither reachable from the other, each with a matching message. "
             "non-trivial = >= 2 branches, >= 1 build and >= 1 matching commit reachable "
             "from a head. Families: " + ', '.join(f"{k}={v}" for k, v in fam.items()),
        exhaustive=False,
        extra={'exhaustive_families': [k for k in fam if k.startswith('small-')]})
    cov.update(ppart)
    _seen, _viol = set(), []
    for _v in pv + b.violations():
        if _v.key not in _seen:
            _seen.add(_v.key)
            _viol.append(_v)
    return finish(PROP, 'exploration', _viol, pu, pe + b.errors, cov, passumed +
                  ["branch names are master and release/<parts joined by / . _ -> with one separator style per repository; "
                   "'numeric-aware name' is read as: the name cut at the separators, parts of digits compared as "
                   "numbers, other parts as strings, a name whose parts are a proper prefix of another's first "
                   "(release/10 < release/10.1 < release/10.1.2 < release/10.2 < release/10.10). Only sets of names "
                   "on which this reading and the 'natural sort' of the raw name (maximal digit runs as numbers) "
                   "agree and are strict are generated (checked on every case): no number against a word in the same "
                   "position, no names differing only in separators or leading zeros, lower-case words. "
                   "BranchName.cmp on other names is a proof-tier obligation",
                   "a build commit is a commit carrying a tag build_<n>_<branch>_success (the default build detector)",
                   "commit times: either all within a span of 29 days, or (family old-history) spread over up to 45 "
                   "days with every branch head at most 29 days older than the newest commit of the repository - no "
                   "branch is obsolete whichever report-related commit the 30-day cut-off is measured from. Histories "
                   "in which a head is more than 30 days older than the LATEST report-related commit of the lower-sorted "
                   "branches but not than the EARLIEST report-related build are not generated: the package's comment "
                   "(ak/ghist.py, _OBSOLETE_BRANCH_CUTOFF_PERIOD: 'older than latest report-related commit') calls such "
                   "a branch obsolete while the code (min_rbuild_timestamp) does not, and the property's quantifier "
                   "excludes histories with obsolete branches, so neither behaviour is demanded there",
                   "'contains the search text' = Python sub-string containment of the text exactly as passed to "
                   "make_reports_data (no stripping, case folding or pattern syntax); the empty search text is not "
                   "generated",
                   "'listed' = RBuild.get_printable_rcommits() of make_reports_data; the printed GHistReport is "
                   "compared with it on every 97th case as a supporting clause",
                   "two parallel tagged sub-branches containing the same commit: either ancestry-minimal build is "
                   "accepted as 'earliest'",
                   "bounded: histories of <= 12 commits, <= 3 release branches + master"], t0)
