"""C07 - component builds are reported at the first parent build that ships them; repositories are
analysed components first; cyclic dependencies are rejected."""
import time

from vlib.common import finish
from vlib.bounded import Bounded
from harness import c07 as driver
from checks._proof import proof_subobligations

PROP = 'C07'


def run():
    t0 = time.time()
    pv, pu, pe, ppart, passumed = proof_subobligations(PROP, ['contracts.c07_bumps'], ['ak.ghist'])
    b = Bounded(PROP, 'harness.c07')
    driver.run(b)
    cov = b.coverage(
        rule=f"(1) repository ordering, exhaustive, every run: every non-empty subset S of 4 repository names "
             f"supplied to ReposCollection x every assignment of a component list (any subset of the 4 names, "
             f"itself and absent repositories included) to each member of S - 65 536 graphs for |S|=4, "
             f"4 x 4096 + 6 x 256 + 4 x 16 for smaller S - each under up to 3 supply orders "
             f"({b.notes.get('order_cases')} constructions); acyclic ones are also run through make_reports_data "
             f"with recording stub repositories. (2) {b.notes.get('history_cases')} seeded two-repository "
             f"histories (VERIF_SEED) on the mock repository: component of 2-8 commits on one branch (half linear, "
             f"half DAGs with merges and parallel tagged sub-branches), 1-5 builds with growing numbers, in half of the "
             f"components 30-60 % of the build commits were built twice (two build tags, distinct numbers), 1-4 "
             f"matching commits; parent of 2-10 commits (merges, 1-2 roots), 0-2 release branches + master with "
             f"heads anywhere, 0-5 build tags, 0-2 own matching commits, every commit pinning a component build by "
             f"any of its numbers, "
             f"pins monotone along every edge; both supply orders; all times within one day. "
             f"non-trivial = (1) >= 2 repositories with a dependency between supplied ones, "
             f"(2) the parent's builds pin >= 2 distinct component builds",
        exhaustive=False,
        extra={'exhaustive_part': 'repo_order over <= 4 repositories', 'counts': dict(b.notes)})
    cov.update(ppart)
    _seen, _viol = set(), []
    for _v in pv + b.violations():
        if _v.key not in _seen:
            _seen.add(_v.key)
            _viol.append(_v)
    return finish(PROP, 'exploration', _viol, pu, pe + b.errors, cov, passumed +
                  ["report-related component builds = the builds shown in the component's own report "
                   "(their correctness is C06's subject)",
                   "the component has a single branch (with several component branches the statement's 'contains' "
                   "is ambiguous between ancestry and per-branch listing); builds of a parent branch as defined in C06",
                   "'never decreases' is read as: the pinned component commit of a child is the pinned commit of its "
                   "parent or a descendant of it, and the pinned number is not smaller (equals the numeric order on "
                   "linear component histories)",
                   "a component build = a build-tagged commit; all build numbers of one commit name that build",
                   "every parent commit pins a build-tagged component commit reachable from the component's head",
                   "all commit times of both repositories within one day (inside both cut-off windows)",
                   "one build tag per parent commit, distinct build numbers (included_at identifies parent builds by "
                   "branch and number)",
                   "bounded: <= 4 repositories for ordering; component <= 8 commits, parent <= 10 commits"], t0)
