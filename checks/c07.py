"""C07 - component builds are reported at the first parent build that ships them; repositories are
analysed components first; cyclic dependencies are rejected."""
import time

from vlib.common import finish
from vlib.bounded import Bounded
from harness import c07 as driver
from checks._proof import proof_subobligations

PROP = 'C07'


def run():
    t0 = time.time()
    pv, pu, pe, ppart, passumed = proof_subobligations(PROP, ['contracts.c07_bumps'], ['ak.ghist'])
    b = Bounded(PROP, 'harness.c07')
    driver.run(b)
    cov = b.coverage(
        rule=f"(1) repository ordering, exhaustive, every run: every non-empty subset S of 4 repository names "
             f"supplied to ReposCollection x every assignment of a component list (any subset of the 4 names, "
             f"itself and absent repositories included) to each member of S - 65 536 graphs for |S|=4, "
             f"4 x 4096 + 6 x 256 + 4 x 16 for smaller S - each under up to 3 supply orders "
             f"({b.notes.get('order_cases')} constructions); acyclic ones are also run through make_reports_data "
             f"with recording stub repositories. (2) {b.notes.get('history_cases')} seeded two-repository "
             f"histories (VERIF_SEED) on the mock repository: component of 2-8 commits on one branch (half linear, "
             f"half DAGs with merges and parallel tagged sub-branches), 1-5 builds with growing numbers, in half of the "
             f"components 30-60 % of the build commits were built twice (two build tags, distinct numbers), 1-4 "
             f"matching commits; parent of 2-10 commits (merges, 1-2 roots), 0-2 release branches + master with "
             f"heads anywhere, 0-5 build tags, 0-2 own matching commits, every commit pinning a component build by "
             f"any of its numbers, "
             f"pins monotone along every edge; both supply orders; all times within one day. "
             f"(3) {b.notes.get('spread_cases')} further seeded two-repository histories with explicit commit "
             f"dates spread over up to 30 days (dates grow along ancestry; gaps of minutes to 2.5 days between a "
             f"commit and its parent, work on a component branch starting up to 6 days after the branch point): "
             f"30 % one-branch components as in (2), 70 % components with 2-3 branches (release/x.y, master, any "
             f"subset) forking from a shared trunk of 1-3 commits (built, never matching), each with a private "
             f"part of 0-4 commits (chains, fork/join segments) carrying builds and matching commits, any branch "
             f"holding the oldest report-related build; build numbers in date order, one release in all tags or "
             f"one per branch; parent as in (2) with every commit dated after its parents and after the component "
             f"build it pins (15 % of them up to one day before it: clock skew inside the window), parent lines "
             f"following different component branches. "
             f"(4) {b.notes.get('multi_cases')} seeded histories of an owner repository pinning 2 (75 %) or 3 "
             f"components (repository names sorting before and after the owner's; declared by the owner, listed "
             f"in the pins file and supplied to ReposCollection in any order): every component drawn as in (2) "
             f"(70 % of the cases, all times within one day) or as in (3) (30 %, dates spread), or - with "
             f"probability 0.45 for every component after the first - an identically shaped copy of an earlier "
             f"one (another repository with the same commit graph, built and matching commits; other name, build "
             f"numbers shifted by 0-4), the components' release numbers equal (40 %) or distinct; owner as in "
             f"(2)/(3) with one pin per component in every commit, each pin monotone on its own, each pin "
             f"staying with probability 0.5-0.85 per commit (builds moving one pin, several pins or none); the "
             f"clauses are demanded for every component separately. "
             f"(5) {b.notes.get('zero_cases')} seeded histories with version components equal to 0: a case drawn "
             f"as in (2), (3) or (4) (one third each) whose version numbers are replaced, per repository and "
             f"order preserved: the releases named in the build tags by a sorted sample of 0.0, 0.1, 0.9, 0.10, "
             f"1.0, 1.1, 2.0, 3.0, 3.1, 5.4, 10.0 (the lowest with major version 0 in >= 3 of 4 repositories), "
             f"all build numbers lowered by one amount (the lowest becoming 0 in >= half of the repositories), "
             f"release branches renamed likewise (a one-branch one-release repository gets the branch of its "
             f"release, e.g. release/0.9 with tags build_N_release_0_9_success), the owner's pins rewritten to "
             f"the new numbers; build numbers come from the tags only (no saved-version file). "
             f"non-trivial = (1) >= 2 repositories with a dependency between supplied ones, "
             f"(2), (3) the parent's builds pin >= 2 distinct component builds, (4) the same for some component "
             f"and >= 2 components have a report-related build first shipped by some owner build, (5) as the "
             f"family the case was drawn from",
        exhaustive=False,
        extra={'exhaustive_part': 'repo_order over <= 4 repositories', 'counts': dict(b.notes)})
    cov.update(ppart)
    _seen, _viol = set(), []
    for _v in pv + b.violations():
        if _v.key not in _seen:
            _seen.add(_v.key)
            _viol.append(_v)
    return finish(PROP, 'exploration', _viol, pu, pe + b.errors, cov, passumed +
                  ["report-related component builds = the builds shown in the component's own report "
                   "(their correctness is C06's subject)",
                   "component branches: one branch, or several branches such that no commit reachable from two "
                   "component branch heads matches the search text (every report-related component build and "
                   "everything containing it is then private to one branch; when report-related builds are shared "
                   "between component branches or one component branch merges another, the statement's 'contains' is "
                   "ambiguous between ancestry and per-branch listing - not checked); builds of a parent branch as "
                   "defined in C06",
                   "'never decreases' is read as: the pinned component commit of a child is the pinned commit of its "
                   "parent or a descendant of it, and the pinned number is not smaller (equals the numeric order on "
                   "linear component histories)",
                   "a component build = a build-tagged commit; all build numbers of one commit name that build",
                   "every parent commit pins a build-tagged component commit reachable from the component's head",
                   "'commit times within the cut-off windows' (ak/ghist.py: a component is ignored at parent commits "
                   "not younger than its oldest report-related build minus 1 day; a branch whose head is 30 days older "
                   "than a report-related build is dropped) is made precise as: no parent commit is a day or more "
                   "older than any component commit contained in the build it pins (hence no parent commit whose pin "
                   "contains a report-related component build is at or below the component's cut-off, whichever "
                   "builds are report-related), and all commit times of the two repositories span less than 30 days; "
                   "in the generated histories dates also grow along ancestry within a repository",
                   "one build tag per parent commit, distinct build numbers (included_at identifies parent builds by "
                   "branch and number)",
                   "an owner of several components: the components are leaves (no components of their own), every "
                   "owner commit pins every component, and the pre-conditions above hold for every (owner, component) "
                   "pair; what is demanded for the builds of one component depends on the owner's pins of that "
                   "component only",
                   "bounded: <= 4 repositories for ordering; component <= 8 commits, parent <= 10 commits, "
                   "<= 3 components per owner"], t0)
