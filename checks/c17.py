"""C17 - layered HTTP connections compose adapters without side effects (bounded complement; proof tier pending)."""
from checks._bounded import run_bounded_check


def run():
    return run_bounded_check(
        'C17', 'harness.c17',
        "472 fixed cases (request-argument grid through a 3-layer chain, every clone argument kind) then seeded sequences of "
        "<= 6 operations {wrap with prefix/basic/bearer/client auth, add_adapter, clone(None/one/list/tuple), get_conn, request} "
        "on a shared root with a stub opener; every pre-existing connection and caller is probed again after every operation; "
        "non-trivial = >= 2 layers and >= 2 requests",
        ["at most one authenticating adapter per chain and no caller-supplied Authorization header",
         "paths and prefixes start with '/' and do not end with '/'",
         "adapters added to an ancestor after a derivation: nothing demanded"])
