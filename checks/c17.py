"""C17 - layered HTTP connections compose adapters without side effects (per-operation proof + bounded sequences)."""
from checks._proof import run_proof_check

PROP = 'C17'


def run():
    return run_proof_check(
        PROP, ['contracts.c17_http'], ['ak.conn_http', 'ak.mcaller_http'], level='proof', harness='harness.c17',
        bounded_rule="472 fixed cases (request-argument grid through a 3-layer chain, every clone argument kind), then a grid of "
                     "316 credentials (27 special ASCII / 2-4-byte utf-8 characters at every offset modulo 3 in login, password, "
                     "client id, client secret, so that the standard base64 of id:password contains '+', '/', both, and every "
                     "padding length; bearer tokens with '+/=') x 4 deployment shapes of the authenticating layer (wrapper class in "
                     "a 3-layer chain, clone(adapter), adapter in a list + caller + clone(list), add_adapter), the Authorization "
                     "value decoded with the strict standard-alphabet base64 decoder and compared with the configured bytes; then "
                     "seeded sequences (every second one with its credentials replaced from the grid) of <= 6 operations {wrap with prefix/basic/bearer/client auth, add_adapter, clone(None/one/list/"
                     "tuple), get_conn, request} on a shared root with a stub opener; every pre-existing connection and caller "
                     "is probed again after every operation; non-trivial = >= 2 layers and >= 2 requests",
        checker_note="",
        extra_assumptions=["at most one authenticating adapter per chain and no caller-supplied Authorization header "
                           "(the adapters assert this)",
                           "get_conn (inspect-based metadata lookup) is covered by the bounded driver only",
                           "the all-histories claim follows from the per-operation frames by induction over operations "
                           "(meta-argument, not mechanised)"])
