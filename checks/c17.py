"""C17 - layered HTTP connections compose adapters without side effects (per-operation proof + bounded sequences)."""
from checks._proof import run_proof_check

PROP = 'C17'


def run():
    return run_proof_check(
        PROP, ['contracts.c17_http'], ['ak.conn_http', 'ak.mcaller_http'], level='proof', harness='harness.c17',
        bounded_rule="472 fixed cases (request-argument grid through a 3-layer chain, every clone argument kind) then seeded "
                     "sequences of <= 6 operations {wrap with prefix/basic/bearer/client auth, add_adapter, clone(None/one/list/"
                     "tuple), get_conn, request} on a shared root with a stub opener; every pre-existing connection and caller "
                     "is probed again after every operation; non-trivial = >= 2 layers and >= 2 requests",
        checker_note="",
        extra_assumptions=["at most one authenticating adapter per chain and no caller-supplied Authorization header "
                           "(the adapters assert this)",
                           "get_conn (inspect-based metadata lookup) is covered by the bounded driver only",
                           "the all-histories claim follows from the per-operation frames by induction over operations "
                           "(meta-argument, not mechanised)"])
