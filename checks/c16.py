"""C16 - request ids are unique per connection under concurrent use (bounded smoke complement; proof tier pending)."""
from checks._bounded import run_bounded_check


def run():
    return run_bounded_check(
        'C16', 'harness.c16',
        "2 sequential runs plus threaded trials (3-9 threads x 60/200 requests through one connection and connections derived "
        "from it, switch interval 1e-6, stub opener): ids distinct, numbers gapless, caller-supplied id kept and consuming no "
        "number; non-trivial = >= 2 threads",
        ["interleavings are not explored systematically (that is the lock-invariant proof's job)",
         "caller id spelled exactly X-Request-ID"])
