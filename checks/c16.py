"""C16 - request ids are unique per connection under concurrent use (lock-invariant proof + smoke complement)."""
from checks._proof import run_proof_check

PROP = 'C16'


def run():
    return run_proof_check(
        PROP, ['contracts.c16_request_ids'], ['ak.conn_http'], level='proof', harness='harness.c16',
        bounded_rule="every single-pre-emption schedule at line granularity: request A suspended before each line it executes in "
                     "ak/conn_http.py while request B (same or derived connection) runs to completion - exhaustive for that family; "
                     "2 sequential runs plus threaded trials (3-9 threads x 60/200 requests through one connection and "
                     "connections derived from it, switch interval 1e-6, stub opener): ids distinct, numbers gapless, caller id "
                     "kept; smoke complement only - interleavings are covered by the lock-invariant obligations, not sampled; "
                     "non-trivial = >= 2 threads",
        checker_note="+ AST scan of every ak/*.py for accesses to the counter (lock-invariant obligations)",
        extra_assumptions=["caller id is matched with the exact spelling 'X-Request-ID' (urllib capitalises header names; "
                           "a caller writing 'x-request-id' is an unchecked edge)"])
