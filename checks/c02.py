"""C02 - conflict-free (LL(1)) grammars are parsed exactly."""
import time

from vlib.common import finish
from vlib.bounded import Bounded
from harness import c02 as driver

PROP = 'C02'


def run():
    t0 = time.time()
    b = Bounded(PROP, 'harness.c02')
    driver.run(b)
    cov = b.coverage(rule=driver.rule_text(b.tier), exhaustive=True, extra={'counts': dict(b.notes)})
    return finish(PROP, 'exploration', b.violations(), [], b.errors, cov,
                  ["grammars are well-formed (start symbol defined, every referenced symbol a declared token or a "
                   "defined nonterminal, no alternative listed twice, every nonterminal reachable) and not "
                   "left-recursive by the independent left-corner closure (the quantifier of C02; C03 owns the rest)",
                   "terminals are word tokens separated by blanks; token strings only over the grammar's terminals "
                   "(other texts are lexical errors, C04)",
                   "'unique derivation tree' is checked as: root = start symbol, every node one of the user's "
                   "productions, yield = the tokens; for the LL(1) / conflict-free grammars in scope the derivation "
                   "is unique, so this identifies the tree",
                   "same_for_both_factorizations is demanded when the grammar is LL(1) as written or both tables are "
                   "reported conflict-free (is_ambiguous() may legitimately differ between the settings otherwise)",
                   "is_ambiguous() is read as a verdict about the grammar: asked again after parses on the same parser "
                   "object it must give the answer of the fresh parser (demanded under ll1_not_ambiguous for LL(1) "
                   "grammars and for tables reported conflict-free; a change on a table reported ambiguous is a "
                   "diagnostic)",
                   "a constructor failure on a non-left-recursive grammar is a diagnostic here (C03's clause)",
                   "the grammar is the set of productions plus start_symbol_name: the order in which the symbols are "
                   "declared in the productions dict is an input dimension (start symbol first / in the middle / last) "
                   "but not part of the spec; the order of the alternatives of one symbol stays canonical",
                   "the text argument is a str or a list of lines (the two documented forms; other iterables are not "
                   "explored); 'the text' of a call is what the object holds at the moment of the call: a list edited "
                   "in place by the caller between two calls is a new text, the unchanged list is the same text; the "
                   "list is never modified while a parse() call is running; lines carry no line terminators, tokens "
                   "are separated by blanks or line ends",
                   "description objects shared between parsers: the grammar of a parser is what the constructor's "
                   "arguments describe for THAT parser - an AnyTokenExcept(ex) alternative stands for one alternative "
                   "(t,) per token kind t of the parser's own tokenizer (its named groups, the skipped SPACE kind "
                   "included, as the docstring says 'each token'), t not in ex - independently of the parsers "
                   "constructed before or after from the same AnyTokenExcept / productions dict objects; explored: "
                   "AnyTokenExcept instances and the productions dict with its lists (ex names only token kinds every "
                   "tokenizer of the session knows: an unknown one is a documented GrammarError; ProdsTemplate objects "
                   "refuse a second use by design and are not shared; AnyTokenExcept inside ProdSequence, shared "
                   "synonyms / keywords dicts are not explored); a constructor failure stays a diagnostic",
                   "bounded: grammar families and string length as in the rule; each parse under a budget of "
                   "%d parse-loop events / %.0f s" % (driver.STEP_BUDGET, driver.WALL_BUDGET)], t0)
