"""C10 - rendering is pure: colours never change layout and output has no memory."""
import time

from vlib.common import finish
from vlib.bounded import Bounded
from harness import c10 as driver
from checks._proof import proof_subobligations

PROP = 'C10'


def run():
    t0 = time.time()
    pv, pu, pe, ppart, passumed = proof_subobligations(PROP, ['contracts.c10_caches'], ['ak.ppobj', 'ak.color'])
    b = Bounded(PROP, 'harness.c10')
    driver.run(b)
    sizes = b.notes.get('sizes', {})
    cov = b.coverage(
        rule=f"a case is a history of steps over {{new ColorsConfig, construct/register a palette, render object k via a "
             f"route, drop config + gc.collect(), replace the global config, churn}}; every render request evaluates the "
             f"four clauses (strip_equals_nocolor, nocolor_has_no_escape, lines_equal_whole, history_independent) on the "
             f"coloured and the no_color rendering, the reference being a freshly built equal object under a freshly built "
             f"equal configuration, rendered in a process forked from the pristine interpreter state. A render request of an "
             f"object whose rendering is a lazily evaluated result object (PrettyPrinter, PPTable, GHistReport) also carries a "
             f"consumption schedule carried out on ONE further result object of the request: a list of iter (all lines) / "
             f"str / plain_text / take k lines and pause / resume the paused iteration / two iterations in lockstep "
             f"({len(driver.SCHEDULES)} curated schedules rotating over grid, scripted and shared-format histories so that every "
             f"object meets each; seeded random schedules of 2..6 consumptions, >= 2 of them line by line, in 80% of the render "
             f"steps of the random histories); every complete consumption must give the text of the first one, a partial one "
             f"its beginning (lines_equal_whole). (A) grid: every one of the {len(driver.OBJECT_NAMES)} objects (PrettyPrinter "
             f"results, PPTable plain/enum with every modifier, PPRecordFmt, GHistReport over mocked repositories, h/hh help "
             f"of functions, classes, objects, bound methods, MCaller) x {sizes.get('grid_configs')} configurations "
             f"(default, no_color, each colour form named / 0-255 int / rgb tuple / gray on TEXT alone and on every syntax id, "
             f"fg/bg + modifiers, parent references, seeded mixtures) x routes (quick: the first route of the kind + one other, rotating; thorough: every route "
             f"of colors_conf=, global config, palette object, palette class, alternative palette object) = {sizes.get('grid')} two-step histories; (B) "
             f"{sizes.get('curated')} curated histories: a 12-step script per object and churns of <= 100 (500) "
             f"create/render/discard/gc rounds per enum object and route (2 (3) routes), plus the same number of rounds with a "
             f"brand-new palette class per round (coloured, then no_color); and every rendering order of the members of 3 groups of tables built from another table's format object "
             f"(fmt_obj=other.fmt, records of different widths; the reference is the member of a fresh, never rendered group); "
             f"(C) {sizes.get('random')} seeded random histories "
             f"of 3..12 steps over 3 config slots and 3-4 objects each (random.Random(seed*7919+10)); "
             f"(D) format changes between the renderings of a table (steps table.fmt = text / table.remove_columns(names); "
             f"the reference is a never rendered twin table given the same changes in the same order): "
             f"{sizes.get('format_change')} histories render / change / render (/ change / render) - for each of "
             f"{len(driver.LIMITED)} limited tables (a records limit, given in the fmt or as limits=, hides records whose values "
             f"are longer than the visible ones; columns of negotiable width, plain / enum / break-by) every new fmt of "
             f"{{columns part empty = columns kept, '*', named columns incl. enum modifiers and break-by}} x {{limits lifted, "
             f"widened, narrowed, kept}} ({len(driver.GENERIC_FMTS)} generic + {len(driver.NAMED_FMTS)}..{len(driver.NAMED_FMTS) + len(driver.ENUM_FMTS)} named), "
             f"each also followed by a second change (quick: {len(driver.SECOND_FMTS)}; thorough: every fmt), a removed column "
             f"before / after a fmt change; for every other table of the catalogue every generic fmt (quick: "
             f"{len(driver.GENERIC_FMTS_QUICK)} of them) - and {sizes.get('format_change_random')} seeded random histories of "
             f"4..12 steps over {{new config, render, fmt change, remove a column, drop config}} on a limited table and one more "
             f"table (random.Random(seed*7919+12)). "
             f"non-trivial = >= 2 configurations alive at different times (one discarded) and >= 1 object with an enum column "
             f"rendered",
        exhaustive=False,
        extra={'sizes': sizes, 'git_mock': b.notes.get('git_mock')})
    assumptions = [
        "texts and values of the rendered objects contain no escape character themselves",
        "colour descriptions refer only to built-in syntax ids (TEXT, NAME, KEYWORD, NUMBER, OK, WARN, ERROR), so every "
        "item is resolved when registered; 'configuration in force' = the syntax map at the moment of the request "
        "(lazy registration of components is by design, C14); an explicit '-' together with a parent is not generated (C14)",
        "the reference configuration is ColorsConfig(same description) with the same components registered in the order "
        "recorded by the syntax map; a request whose reference map differs from the map in force is skipped (diagnostic); "
        "the reference is rendered in a process that has rendered nothing before (fork of the pristine state)",
        "the format of a table is part of the object: after table.fmt = text / remove_columns steps the equal object of "
        "the history clause is a twin constructed in the same way and given the same format changes in the same order, "
        "never rendered before or in between; a format change which raises is recorded (diagnostic) and given to the twin "
        "as well",
        "a PPRecordFmt is always applied to the same record (its column widths are finalised by the first record: format "
        "state, not colour state); PPTable widths are finalised by its own records",
        "console help: HCommand is constructed at the moment of the request (it takes its palette from the global "
        "configuration when constructed); its no_color form is a no_color global configuration, or an explicit "
        "no_color palette passed to gen_help_text; MCaller objects have all components available (the unavailable branch "
        "refers to an undefined name SHText and cannot render at all)",
        "mock commits get their random author/time from a re-seeded random module so that a fresh report is an equal object",
        "an exception raised identically by the rendering after the history and by the fresh reference is not a purity "
        "violation (reported as diagnostic)",
        "bounded: histories of <= 12 steps, churns of <= 500 rounds, the fixed object catalogue",
    ]
    cov.update(ppart)
    _seen, _viol = set(), []
    for _v in pv + b.violations():
        if _v.key not in _seen:
            _seen.add(_v.key)
            _viol.append(_v)
    return finish(PROP, 'exploration', _viol, pu, pe + b.errors, cov, passumed + assumptions, t0)
