"""C08 - coloured text behaves exactly like the underlying string.
Bounded-symbolic contracts (chunk lists of <= 2/3 chunks, all texts, colours, indexes and bounds symbolic)
+ the model-based bounded driver.  Nothing here is counted as an unbounded proof."""
import time

from vlib.common import finish
from vlib.bounded import Bounded
from harness import c08 as driver
from checks._proof import proof_subobligations

PROP = 'C08'


def run():
    t0 = time.time()
    pv, pu, pe, ppart, passumed = proof_subobligations(PROP, ['contracts.c08_chtext'], ['ak.color'])
    b = Bounded(PROP, 'harness.c08')
    try:
        driver.run(b)
    except Exception as e:      # noqa
        b.error(f"bounded driver crashed: {e!r}")
    cov = b.coverage(
        "exhaustive slices/indexes over -8..8 and None, fixed_len 0..9 and a format-spec grid on fixed texts, then seeded "
        "sequences of <= 8 public CHText operations over 3 colours against a list-of-(char, colour) model cross-checked "
        "with a plain str shadow; non-trivial = some step has >= 2 chunks and a slice crosses a chunk boundary",
        extra=ppart)
    seen, viol = set(), []
    for v in pv + b.violations():
        if v.key not in seen:
            seen.add(v.key)
            viol.append(v)
    return finish(PROP, 'exploration', viol, pu, pe + b.errors, cov, passumed + [
        "bounded-symbolic obligations: chunk lists of at most 2 (quick) / 3 (thorough) chunks; texts, colour prefixes, "
        "indexes, slice bounds and lengths are arbitrary (symbolic)",
        "format specs limited to [[fill]align][width]['s'] without the zero flag; fixed_len n >= 0",
        "'t += [.., t, ..]' skipped (operand mutates while consumed; str has no analogue)",
        "colour of fill characters not demanded"], t0)
