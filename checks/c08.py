"""C08 - coloured text behaves exactly like the underlying string (bounded complement; proof tier pending)."""
from checks._bounded import run_bounded_check


def run():
    return run_bounded_check(
        'C08', 'harness.c08',
        "exhaustive slices/indexes over -8..8 and None, fixed_len 0..9 and a format-spec grid on fixed texts, then seeded "
        "sequences of <= 8 public CHText operations over 3 colours against a list-of-(char, colour) model cross-checked "
        "with a plain str shadow; non-trivial = some step has >= 2 chunks and a slice crosses a chunk boundary",
        ["format specs limited to [[fill]align][width]['s'] without the zero flag; fixed_len n >= 0",
         "'t += [.., t, ..]' skipped (operand mutates while consumed; str has no analogue)",
         "colour of fill characters not demanded"])
