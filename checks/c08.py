"""C08 - coloured text behaves exactly like the underlying string.
Proof tier: contracts on the real CHText methods for texts with ANY number of chunks (loop invariants, folds with
lemmas proved by induction, the canonical-form lemma) - obligations `*.any_length`; bounded-symbolic contracts (<= 2/3
chunks; format widths from a sample; <= 3 operands per constructor / join call) are labelled bounded and not counted;
the model-based bounded driver runs as the complement (format grammar, operation histories)."""
from checks._proof import run_proof_check

PROP = 'C08'


def run():
    return run_proof_check(
        PROP, ['contracts.c08_chtext'], ['ak.color'], level='proof', harness='harness.c08',
        bounded_rule="exhaustive slices/indexes over -8..8 and None, fixed_len 0..9 and a format-spec grid on fixed texts, "
                     "then seeded sequences of <= 8 public CHText operations over 3 colours against a list-of-(char, colour) "
                     "model cross-checked with a plain str shadow; non-trivial = some step has >= 2 chunks and a slice "
                     "crosses a chunk boundary",
        extra_assumptions=[
            "induction over operation histories is the meta-level step: every public operation has the representation "
            "invariant as its only pre-condition on a text and re-establishes it (discharged per operation)",
            "induction schema over the naturals for the fold lemmas and the two ghost-walk lemmas (base/step and every hint "
            "assertion are discharged obligations)",
            "== between texts: chunks have the suffix ColorFmt gives them (suffix determined by prefix; C09 `shape`)",
            "bounded inside the proof tier (labelled bounded_symbolic, not counted): format widths from {none, 0, 1, 2, 7, 10, "
            "25}; at most 3 arguments per constructor / join call and 3 items per list operand",
            "format specs limited to [[fill]align][width]['s'] without the zero flag; fixed_len n >= 0",
            "'t += [.., t, ..]' skipped in the bounded driver (operand mutates while consumed; str has no analogue)",
            "colour of fill characters not demanded"])
