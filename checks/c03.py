"""C03 - left-recursive grammars are rejected; accepted grammars always terminate."""
import time

from vlib.common import finish
from vlib.bounded import Bounded
from harness import c03 as driver

PROP = 'C03'


def run():
    t0 = time.time()
    b = Bounded(PROP, 'harness.c03')
    driver.run(b)
    # complete unless parses of wrongly accepted left-recursive grammars were skipped (see rule)
    complete = not b.notes.get('accepted-left-recursive:parses-not-run')
    cov = b.coverage(rule=driver.rule_text(b.tier), exhaustive=complete, extra={'counts': dict(b.notes)})
    return finish(PROP, 'exploration', b.violations(), [], b.errors, cov,
                  ["grammars are well-formed: start symbol defined, every referenced symbol is a declared token or a "
                   "defined nonterminal, no alternative listed twice for a symbol (two identical alternatives make the "
                   "constructor's factorization assert; not what C03 is about), names free of '__' and '$' "
                   "(nonterminals that are not reachable from the start symbol are allowed and enumerated)",
                   "grammars with ProdsTemplate symbols: ListProds / MapProds / ProdSequence are used with the argument "
                   "combinations their constructors document as implemented (brackets both or none, "
                   "allow_final_delimiter / optional only where allowed, MapProds with assign and delimiter, a "
                   "ProdSequence of pairwise different symbols); brackets, delimiter and assignment symbols are tokens; "
                   "the item of a ListProds without delimiter is not nullable (the constructor reports that usage "
                   "with its own GrammarError before it looks for cycles - although such a list IS a symbol that "
                   "reaches itself without consuming a token, these grammars are left out rather than demanding "
                   "GrammarIsRecursive for them); the left-corner relation of a template symbol is the one of the "
                   "productions its class documentation gives (harness/c03_templates.py: expand)",
                   "terminals are word tokens separated by blanks (one regex group per terminal)",
                   "termination is observed only as 'parse returned or raised within %d parse-loop events "
                   "(TElement/_StackElement creations and roll-backs, counted by in-memory wrappers) and %.0f s "
                   "wall'; no variant is proved, inputs are bounded to <= %d tokens"
                   % (driver.STEP_BUDGET, driver.WALL_BUDGET, driver.MAX_TOKENS),
                   "parse is called as parse(text, do_cleanup=False) and, for the grammars with unreachable symbols, "
                   "also as parse(text, do_cleanup=False, start_symbol_name=s) for every other nonterminal s of the "
                   "grammar (documented argument of LLParser.parse); no other arguments are varied",
                   "an exception of parse() that is not an llparser.Error, and a constructor exception other than "
                   "GrammarIsRecursive on a non-recursive grammar, are reported as diagnostics only (C01/C02 territory)",
                   "bounded: <= 3 nonterminals, <= 2 alternatives, right-hand sides <= 3, 2 terminals, total size "
                   "bound per family (see rule); with templates: <= 2 plain nonterminals and <= 2 template symbols"], t0)
