"""C04 - source positions of tokens and tree nodes are exact and cover the text."""
import time

from vlib.common import finish
from vlib.bounded import Bounded
from harness import c04 as driver
from checks._proof import proof_subobligations

PROP = 'C04'


def run():
    t0 = time.time()
    pv, pu, pe, ppart, passumed = proof_subobligations(PROP, ['contracts.c04_spans'], ['ak.llparser'])
    b = Bounded(PROP, 'harness.c04')
    driver.run(b)
    n = driver.max_lines(b.tier)
    nt = driver.term_full_lines(b.tier)
    nb, ns = len(driver.SHAPES_BASE), len(driver.ALL_SHAPES)
    cov = b.coverage(
        rule=f"every text of 0..{n} lines, each line one of {nb} line shapes (blank, blanks only, un-indented, "
             f"indented, trailing blanks, adjacent/separated tokens, keyword, tab indent, quoted string, illegal "
             f"character inside the line / in column 1, tokens separated by form feed / NEL+U+2028 / vertical tab+"
             f"lone CR+FS - blanks that str.splitlines breaks at but that are not line separators, tokens with "
             f"optional ':' '!' parts, pairs WORD NUM with optional ':' '!' ',' parts before a blank / the end of the "
             f"line) for the configurations plain, synonyms, keywords and one of "
             f"{ns} shapes (the former + span opener/closer on the same line, opener behind a token, closer before a "
             f"token, closer / opener in column 1) for the configuration with one span matcher; every text given as "
             f"one str and as a list of lines (the 0-line text only as the empty list, '' being the one-blank-line "
             f"text); in addition every such text of 1..{nt} lines, and every text of {nt + 1}..{n} lines over the "
             f"reduced alphabet (blank, un-indented, indented, trailing blanks, illegal character in column 1; span "
             f"configuration: + the span shapes), given as a tuple of lines and as a sequence of lines whose items "
             f"still end with their line terminator as readlines() returns them (list with '\\n' on every line / on "
             f"every line but the last, tuple with '\\n', list with '\\r\\n'): the terminator is the last blank "
             f"character of its line, item k of the sequence is line k; per case: _Tokenizer.tokenize output and LLParser.parse trees (raw and cleaned; a fixed "
             f"grammar with nullable leaves, a nullable inner node, one to three consecutive trailing children that "
             f"may match nothing (followed by skipped blanks / line break / comment) and a factorized production, and a "
             f"second grammar of the same language whose alternatives share a common prefix - of one terminal, of "
             f"two terminals, starting with a non-terminal, one common prefix nested behind another - behind which "
             f"the matched alternative goes on and ends with a symbol that matched nothing before skipped blanks / "
             f"a line break / a comment / the end of the text; both grammars built with smart_factorization=True "
             f"and =False; for the span configuration once with the span token skipped and once as a leaf; quick "
             f"tier: the smart_factorization=False parsers only with the span token skipped and without cleanup, "
             f"thorough tier: the whole product) against a hand-written reference "
             f"scanner of the same token language. non-trivial = the text has >= 2 lines or holds a span token",
        exhaustive=True,
        extra={'space_size': driver.space_size(b.tier), 'shapes': driver.ALL_SHAPES,
               'configurations': driver.CFG_ORDER, 'modes': driver.MODES + driver.TERM_ORDER})
    cov.update(ppart)
    _seen, _viol = set(), []
    for _v in pv + b.violations():
        if _v.key not in _seen:
            _seen.add(_v.key)
            _viol.append(_v)
    return finish(PROP, 'exploration', _viol, pu, pe + b.errors, cov, passumed +
                  ["token patterns of the explored configurations match non-empty text only",
                   "items of a sequence of lines that still end with their line terminator ('\\n', '\\r\\n'): the "
                   "terminator is a character of its line and is matched by the blank pattern (\\s+) of every explored "
                   "configuration - a configuration whose patterns do not match it is not explored; for a region that "
                   "runs over several such lines (multi-line span token) get_orig_text may return the lines as given or "
                   "joined by one more line feed (it joins the lines of every region with one): both are accepted, the "
                   "second is reported as a supporting diagnostic; positions are demanded exactly",
                   "the text has at least one line (the empty list is explored, failures on it are diagnostics only)",
                   "blanks at the end of a line may or may not be reported as a token (both readings accepted); the "
                   "position of $END$ is only constrained by 'monotone'",
                   "inner_span / empty_span_at_next_token are evaluated against the positions reported for the "
                   "node's own leaves / the following token, so that a wrong token position is reported once "
                   "(line_start / lexeme), not once per ancestor",
                   "an unclosed span and the column of a lexical error are not part of the statement "
                   "(supporting diagnostics only)",
                   "bounded: texts of at most %d lines over the listed line shapes; 4 tokenizer configurations"
                   % n], t0)
