"""C15 - SQL filters select exactly the intended rows; values are always bound (proof of text/parameters + sqlite3 validation)."""
from checks._proof import run_proof_check

PROP = 'C15'


def run():
    return run_proof_check(
        PROP, ['contracts.c15_sql'], ['ak.mtd_sql'], level='proof', harness='harness.c15',
        bounded_rule="validation of the assumed engine semantics: every single leaf condition, a grid of OR and AND pairs, kwargs "
                     "filters and orderings, then seeded condition trees of depth <= 2 on a 6-row in-memory sqlite3 table with "
                     "NULLs, '', quotes and wildcards, against a three-valued evaluator of the intended condition; "
                     "long IN / NOT IN value lists (499, 500, 501, 600, 1001, 1200 members; thorough: up to 2100; lists, tuples, "
                     "sets, '='/'!=' with a list, 2-tuples, kwargs, with a NULL member, with duplicates) alone, AND-ed, inside OR "
                     "groups and in seeded trees (quick 40, thorough 1500) on a 1500-row table with NULLs, duplicates and "
                     "quotes, part of whose values are members; "
                     "static conditions (caller-supplied SQL text: comparisons with quoted text literals of lower, upper and "
                     "mixed letter case, with quotes and '?', numbers, NULL, IN / NOT IN lists, LIKE, IS [NOT] NULL, column "
                     "against column, AND / OR / NOT combinations; identifiers and keywords in lower, upper and mixed case, "
                     "table-qualified identifiers, varying spacing, '<>' / '==', literal first) rendered from a condition tree "
                     "that is evaluated by the same three-valued evaluator: every static leaf alone (canonical + seeded "
                     "spellings), composite ones, a grid static x bound leaf AND-ed in both orders / with keyword filters and "
                     "ignored None / inside OR groups, pairs of static conditions, and seeded trees (quick 900, thorough "
                     "20000) in which every leaf position may be static; on the 6-row table and on a 12-row table whose text "
                     "values differ by letter case only; "
                     "cursor.execute is spied on for placeholders/parameters; non-trivial = a NULL-sensitive operator is involved",
        extra_assumptions=["static string conditions (caller-supplied SQL text): the intended row set is that of the condition "
                           "as written, taken from the tree the driver rendered the text from; a static condition whose "
                           "top-level operator is OR is parenthesised by the caller when it is AND-ed with other filters "
                           "(the statement is assembled without parentheses around static texts); a '?' inside a quoted "
                           "literal of a static text is text, not a placeholder; that the text reaches the statement "
                           "verbatim is a supporting clause (diagnostic), only the row set is demanded",
                           "comparison operands are scalars (('=', set) reaches the driver as an unbindable parameter: an "
                           "exception, not a wrong row set)",
                           "number of placeholders == number of parameters follows from text == render(intent) and "
                           "values == params(intent): both are built from the same collection length (join_rep(sep, ph, n))"])
