"""C15 - SQL filters select exactly the intended rows; values are always bound (bounded complement; proof tier pending)."""
from checks._bounded import run_bounded_check


def run():
    return run_bounded_check(
        'C15', 'harness.c15',
        "every single leaf condition, a grid of OR and AND pairs, kwargs filters and orderings, then seeded condition trees of "
        "depth <= 2 on a 6-row in-memory sqlite3 table with NULLs, '', quotes and wildcards, against a three-valued "
        "evaluator of the intended condition; cursor.execute is spied on for placeholders/parameters; non-trivial = a "
        "NULL-sensitive operator is involved",
        ["operand type matches the column type; comparison against a set excluded (driver binding error, not a wrong row set)",
         "LIKE evaluated with sqlite rules (ASCII case-insensitive, no escape character); ORDER BY clauses end in id"])
