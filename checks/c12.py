"""C12 - tables are rectangular, aligned, width-bounded and account for every record."""
import time

from vlib.common import finish
from vlib.bounded import Bounded
from harness import c12 as driver
from checks._proof import proof_subobligations

PROP = 'C12'


def run():
    t0 = time.time()
    pv, pu, pe, ppart, passumed = proof_subobligations(PROP, ['contracts.c12_tables'], ['ak.color', 'ak.ppobj'])
    b = Bounded(PROP, 'harness.c12')
    driver.run(b)
    sz = driver.sizes(b.tier)
    cov = b.coverage(
        rule=f"five families. Families A-C: PPTable descriptions, each rendered once with no_color and checked line "
             f"by line. "
             f"(A, exhaustive) every value of a {len(driver.VALUES)}-value pool (ints, None, bools, floats, strings "
             f"with '|', '+', '-', blanks, long strings) and every enum cell (3 enum types x 4 modifiers x declared / "
             f"undeclared / None values) x width specs {{0,1,2,3,4,5,8,len-1,len,len+1,0-3,2-8,1-999,3-3,default}} x "
             f"neighbour column on either side; "
             f"(B, exhaustive) record counts 0..{sz['max_n']} x every pattern of break-by value changes x limits "
             f"{sz['limits']} given by the fmt and by the limits argument; "
             f"(C, seeded random.Random('C12:seed:chunk'), {sz['random']} tables) 0-8 (thorough: up to 12) records x 1-4 "
             f"fields (plain / enum / bounded type) x 1-3 (thorough 1-5) columns with repetition, hidden and skipped "
             f"columns x {len(driver.WIDTHS)} width specs (default, fixed 0..8, ranged, min=max) x break-by x enum "
             f"modifiers x header/footer {{none, empty, short, over-long}} x limits x multi-line/numeric titles x "
             f"record shapes (tuples+fields, namedtuples, value paths, attributes). "
             f"Families D-E: several tables whose lazily generated lines (iterating table.ch_text(no_color=True)) "
             f"are pulled interleaved; every table is also printed on its own (fresh object) and the same per-table "
             f"oracle is applied to the lines obtained either way. Schedules: zip (one line of each table in turn), "
             f"half (k lines of the first table, the other tables printed completely, the rest of the first), seeded "
             f"random order of pulls. "
             f"(D, exhaustive) every ordered pair (narrow 2-column table, wide 3-column table), both with a break-by "
             f"column: record counts {sz['il_ns']} x every pattern of break-by value changes x limits "
             f"{sz['il_limits']} on either side x {{zip, half k=1,4,6; wide table first: zip, half k=5}}; "
             f"(E, seeded random.Random('C12:interleaved:seed:chunk'), {sz['il_random']} cases) 2 (15%: 3) tables of "
             f"family C, 12% of the further entries the same table object again, schedule zip 40% / half k=1..9 35% / "
             f"random order 25%. "
             f"non-trivial = the table (families D-E: at least one of the tables, with a second generator started "
             f"before the first one was exhausted) shows at least one truncated record cell, break line or "
             f"skipped-records line; reach event 'interleaved-service-lines' = two different tables that both have "
             f"break / skipped-records lines and differ in width or number of skipped records, the second started "
             f"before the first yields one of those lines",
        exhaustive=False,
        extra={'families': {'A_cells': 'exhaustive', 'B_accounting': 'exhaustive', 'C_random': 'seeded',
                            'D_interleaved_pairs': 'exhaustive', 'E_interleaved_random': 'seeded'}})
    cov.update(ppart)
    _seen, _viol = set(), []
    for _v in pv + b.violations():
        if _v.key not in _seen:
            _seen.add(_v.key)
            _viol.append(_v)
    return finish(PROP, 'exploration', _viol, pu, pe + b.errors, cov, passumed +
                  ["values and titles contain no line breaks and only characters of visible width 1 "
                   "(a line break inside a value is outside 'rectangular')",
                   "configured min <= max for every column; at least one visible column",
                   "field names avoid the punctuation of the format string (, : ; / ! < - ( ))",
                   "values in break-by columns are equal exactly when they are printed alike "
                   "(no 1 / True / 1.0 mixtures), so 'break-by values differ' is unambiguous",
                   "enum columns: declared values of one type per enum; the enum cell text is "
                   "'<value right-aligned to the longest declared value> <name>' ('val': value, 'name': name), "
                   "undeclared values are named '<???>', an undeclared None is printed as a plain None "
                   "(documented behaviour used as the reference text of the cell); "
                   "PPEnumFieldType.MISSING customisation not exercised",
                   "the number announced on the skipped-records line is read only when it is completely "
                   "visible (followed by a character other than a digit or a dot); at small widths the line is "
                   "truncated to dots by design",
                   "interleaved generation: at most 3 tables, all with no_color (one palette), built independently "
                   "(no FieldType object shared between two tables); a table is not modified (fmt, records) while "
                   "one of its line generators is alive",
                   "bounded: <= %d records (family B), <= 12 records and <= 5 columns (family C)" % sz['max_n']],
                  t0)
