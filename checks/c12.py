"""C12 - tables are rectangular, aligned, width-bounded and account for every record."""
import time

from vlib.common import finish
from vlib.bounded import Bounded
from harness import c12 as driver
from checks._proof import proof_subobligations

PROP = 'C12'


def run():
    t0 = time.time()
    pv, pu, pe, ppart, passumed = proof_subobligations(PROP, ['contracts.c12_tables'], ['ak.color', 'ak.ppobj'])
    b = Bounded(PROP, 'harness.c12')
    driver.run(b)
    sz = driver.sizes(b.tier)
    cov = b.coverage(
        rule=f"three families of PPTable descriptions, each rendered once with no_color and checked line by line. "
             f"(A, exhaustive) every value of a {len(driver.VALUES)}-value pool (ints, None, bools, floats, strings "
             f"with '|', '+', '-', blanks, long strings) and every enum cell (3 enum types x 4 modifiers x declared / "
             f"undeclared / None values) x width specs {{0,1,2,3,4,5,8,len-1,len,len+1,0-3,2-8,1-999,3-3,default}} x "
             f"neighbour column on either side; "
             f"(B, exhaustive) record counts 0..{sz['max_n']} x every pattern of break-by value changes x limits "
             f"{sz['limits']} given by the fmt and by the limits argument; "
             f"(C, seeded random.Random('C12:seed:chunk'), {sz['random']} tables) 0-8 (thorough: up to 12) records x 1-4 "
             f"fields (plain / enum / bounded type) x 1-3 (thorough 1-5) columns with repetition, hidden and skipped "
             f"columns x {len(driver.WIDTHS)} width specs (default, fixed 0..8, ranged, min=max) x break-by x enum "
             f"modifiers x header/footer {{none, empty, short, over-long}} x limits x multi-line/numeric titles x "
             f"record shapes (tuples+fields, namedtuples, value paths, attributes). "
             f"non-trivial = the table shows at least one truncated record cell, break line or skipped-records line",
        exhaustive=False,
        extra={'families': {'A_cells': 'exhaustive', 'B_accounting': 'exhaustive', 'C_random': 'seeded'}})
    cov.update(ppart)
    _seen, _viol = set(), []
    for _v in pv + b.violations():
        if _v.key not in _seen:
            _seen.add(_v.key)
            _viol.append(_v)
    return finish(PROP, 'exploration', _viol, pu, pe + b.errors, cov, passumed +
                  ["values and titles contain no line breaks and only characters of visible width 1 "
                   "(a line break inside a value is outside 'rectangular')",
                   "configured min <= max for every column; at least one visible column",
                   "field names avoid the punctuation of the format string (, : ; / ! < - ( ))",
                   "values in break-by columns are equal exactly when they are printed alike "
                   "(no 1 / True / 1.0 mixtures), so 'break-by values differ' is unambiguous",
                   "enum columns: declared values of one type per enum; the enum cell text is "
                   "'<value right-aligned to the longest declared value> <name>' ('val': value, 'name': name), "
                   "undeclared values are named '<???>', an undeclared None is printed as a plain None "
                   "(documented behaviour used as the reference text of the cell); "
                   "PPEnumFieldType.MISSING customisation not exercised",
                   "the number announced on the skipped-records line is read only when it is completely "
                   "visible (followed by a character other than a digit or a dot); at small widths the line is "
                   "truncated to dots by design",
                   "bounded: <= %d records (family B), <= 12 records and <= 5 columns (family C)" % sz['max_n']],
                  t0)
