"""C19 - command options are inherited exactly along the declared command graph."""
import time

from vlib.common import finish
from vlib.bounded import Bounded
from harness import c19 as driver
from checks._proof import proof_subobligations

PROP = 'C19'


def classify(oid, attempt):
    """identity of a failing input class of a proof obligation (matched against known_findings.json)"""
    if attempt is None:
        return oid
    inp = attempt.get('inputs') or {}
    if oid.endswith('default_command.default_inserted'):
        argv = inp.get('args') or []
        cps = [k for k, _ in ((inp.get('self') or {}).get('fields', {}).get('command_parsers', {}).get('__dict__') or [])]
        names = ((inp.get('self') or {}).get('fields', {}).get('_commands_names')) or []
        if argv and argv[0] in cps and argv[0] not in names:
            return oid + ':first-argument-is-internal-option-set-name'
        return oid + ':other'
    return oid


def run():
    t0 = time.time()
    pv, pu, pe, ppart, passumed = proof_subobligations(PROP, ['contracts.c19_cli'], ['ak.cli_tools'], classify)
    b = Bounded(PROP, 'harness.c19')
    driver.run(b)
    n = 4 if b.tier == 'quick' else 5
    cov = b.coverage(
        rule=f"every command list of <= {n} declarations whose parents are subsets of the earlier names x every "
             f"internal('!')/command flag pattern with at least one command, under three name assignments "
             f"(set iteration order; the third has upper-case letters and two names equal up to letter case, "
             f"<= {n - 1} declarations); per declaration: construction, dependents == descendants, one option per "
             f"parser + one global option parsed for every (command, option) pair with real argparse, default-command "
             f"vectors, and for every declared name (command or internal set) every upper/lower/capitalised/swapped/"
             f"alternating spelling that is not itself a declared name as first argument, alone and (first two spellings) followed by "
             f"each parser's option (accepted iff the default command owns or inherits it). non-trivial = some command has >= 2 parents",
        exhaustive=True)
    cov.update(ppart)
    _seen, _viol = set(), []
    for _v in pv + b.violations():
        if _v.key not in _seen:
            _seen.add(_v.key)
            _viol.append(_v)
    return finish(PROP, 'exploration', _viol, pu, pe + b.errors, cov, passumed +
                  ["argparse accepts an option on a sub-parser iff it was added to it (library, exercised for real)",
                   "bounded: declarations of at most %d commands" % n], t0)
