"""C19 - command options are inherited exactly along the declared command graph."""
import time

from vlib.common import finish
from vlib.bounded import Bounded
from harness import c19 as driver

PROP = 'C19'


def run():
    t0 = time.time()
    b = Bounded(PROP, 'harness.c19')
    driver.run(b)
    n = 4 if b.tier == 'quick' else 5
    cov = b.coverage(
        rule=f"every command list of <= {n} declarations whose parents are subsets of the earlier names x every "
             f"internal('!')/command flag pattern with at least one command, under two name assignments "
             f"(set iteration order); per declaration: construction, dependents == descendants, one option per "
             f"parser + one global option parsed for every (command, option) pair with real argparse, default-command "
             f"vectors. non-trivial = some command has >= 2 parents",
        exhaustive=True)
    return finish(PROP, 'exploration', b.violations(), [], b.errors, cov,
                  ["argparse accepts an option on a sub-parser iff it was added to it (library, exercised for real)",
                   "bounded: declarations of at most %d commands" % n], t0)
