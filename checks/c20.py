"""C20 - short uuid strings are a bijective encoding of UUIDs (proof tier + validation runs)."""
import random
import time
import uuid

from vlib.common import finish, tier, seed, Violation
from pyvc import propcheck

PROP = 'C20'
from contracts import c20_short_uuid as _c20   # noqa: the spec's alphabet (observed, not the module's private table)
_SPEC_A, _SPEC_IDX = _c20.A, _c20.IDX


def classify(oid, attempt):
    """identity of a failing input class, for the known-findings file"""
    if attempt is None:
        return oid
    out = (attempt.get('native') or {}).get('outcome')
    return f"{oid}:{out[1] if out and out[0] == 'raise' else 'wrong-value'}"


def validation_runs():
    """bounded, native: exercises the assumed library contracts and the top-level statement on
    boundary and seeded values (never counted as proved)"""
    from ak import short_uuid as su
    rnd = random.Random(seed())
    n = 0
    bad = []
    ints = [0, 1, 56, 57, 58, 2 ** 128 - 1, 2 ** 127, 57 ** 21, 57 ** 21 - 1, 57 ** 21 + 1]
    ints += [rnd.getrandbits(128) for _ in range(2000 if tier() == 'quick' else 50000)]
    seen = {}
    for x in ints:
        n += 1
        u = uuid.UUID(int=x)
        s = su.uuid_to_short_str(u)
        if len(s) != 22 or any(c not in _SPEC_IDX for c in s):
            bad.append(('encode_shape', x, s))
        try:
            if su.uuid_from_short_str(s) != u or su.uuid_from_str(s) != u or su.uuid_from_str(str(u)) != u:
                bad.append(('roundtrip', x, s))
        except Exception as e:      # noqa
            bad.append(('roundtrip_raises', x, repr(e)))
        if s in seen and seen[s] != x:
            bad.append(('collision', x, seen[s]))
        seen[s] = x
    alphabet = list(_SPEC_A)
    malformed = ['', 'a', '2' * 21, '2' * 23, '0' * 22, 'l' * 22, 'I' * 22, 'O2' * 11, ' ' * 22, '2' * 21 + '\n',
                 'zzzzzzzzzzzzzzzzzzzzzz', 'é' * 22, '2' * 21 + '1']
    # valid forms with surrounding white space are "any other string": rejected by both entry points
    for good in ('hfDoPxAatD8tiFaSAL3oXh', '2' * 22, 'de22bbe0-43bf-448d-9b83-2ee57e663285'):
        for pad in (' ', '\t', '\n', '\r\n', '\x0b', '\u00a0', '\u2003'):
            malformed += [pad + good, good + pad, pad + good + pad]
    for _ in range(300):
        k = rnd.choice([21, 22, 22, 22, 23, 5])
        malformed.append(''.join(rnd.choice(alphabet + ['0', '1', 'l', 'I', 'O', '-', '_']) for _ in range(k)))
    for s in malformed:
        n += 1
        ok = len(s) == 22 and all(c in _SPEC_IDX for c in s)
        val = sum(_SPEC_IDX[c] * 57 ** i for i, c in enumerate(s)) if ok else None
        for fn in (su.uuid_from_short_str, su.uuid_from_str):
            if fn is su.uuid_from_str and not ok:
                try:
                    uuid.UUID(s)
                    continue        # a canonical form the library itself accepts (e.g. with braces): not malformed
                except ValueError:
                    pass
            try:
                r = fn(s)
                if not ok or val >= 2 ** 128 or r.int != val:
                    bad.append(('accepted_malformed', fn.__name__, s))
            except ValueError:
                if ok and val < 2 ** 128:
                    bad.append(('rejected_valid', fn.__name__, s))
            except Exception as e:      # noqa
                bad.append(('wrong_exception', fn.__name__, s, type(e).__name__))
    return n, bad


def run():
    t0 = time.time()
    pr = propcheck.run_proof_tier(PROP, ['contracts.c20_short_uuid'], ['ak.short_uuid'], classify)
    violations, undecided, errors = pr['violations'], pr['undecided'], pr['errors']
    n_val, bad = validation_runs()
    reported = {v.key for v in violations}
    for b in bad:
        # the validation runs check the same top-level clauses on concrete values
        if b[0] == 'wrong_exception':
            ob = f"{PROP}.{b[1]}.raises_only_ValueError"
            key = f"{ob}:{b[3]}"
            text = f"{b[1]}({b[2]!r}) raises {b[3]} instead of ValueError"
        else:
            ob = f"{PROP}.validation.{b[0]}"
            key = ob
            text = f"validation run: {b!r}"
        if key in reported:
            continue
        reported.add(key)
        violations.append(Violation(PROP, ob, key, text, {'kind': 'native-validation', 'case': list(map(repr, b))}))
    obs = pr['obligations']
    table = propcheck.obligations_table(obs)
    n_ob = len([o for o in table if o['level'] != 'sup' or True])
    n_dis = len([o for o in table if o['status'] == 'discharged'])
    coverage = {
        'obligations': n_ob, 'discharged': n_dis,
        'checker_cmd': "/verif/check C20  (pyvc: VCs generated from the AST of /repo/ak/short_uuid.py on every run; "
                       "z3 5.1.0 python API, /usr/bin/cvc5 --strings-exp for z3 'unknown')",
        'trusted_base': [
            "pyvc VC generator (validated per run: CPython cross-check on concrete inputs, canaries)",
            "z3 5.1.0 / cvc5 1.0.3 'unsat' answers",
            "python ints are mathematical integers; str = sequence of code points (z3 chars U+0000..U+2FFFF)",
        ] + pr['assumed'],
        'functions_under_contract': pr['functions'],
        'per_obligation': table,
        'instances_discharged': sum(o['unsat'] for o in obs.values()),
        'solver_time_s': round(sum(o['time_s'] for o in obs.values()), 2),
        'timing': pr['timing'], 'canaries': pr['canaries'], 'engine_crosscheck': pr['crosscheck'],
        'diagnostics': pr['diagnostics'], 'extraction_dropped': pr['dropped'],
        'bounded_validation': {'label': 'bounded (native runs, not counted as proved)', 'evaluations': n_val,
                               'failures': len(bad),
                               'rule': 'boundary ints, seeded 128-bit ints, malformed strings; round trip, shape, '
                                       'injectivity on the sample, rejection with ValueError only'},
        'samples': [o['id'] for o in table[:6]],
    }
    return finish(PROP, 'proof', violations, undecided, errors, coverage, pr['assumed'], t0)
