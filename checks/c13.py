"""C13 - a table's reported format string reproduces the table."""
import time

from vlib.common import finish
from vlib.bounded import Bounded
from harness import c13 as driver
from checks._proof import proof_subobligations

PROP = 'C13'


def run():
    t0 = time.time()
    pv, pu, pe, ppart, passumed = proof_subobligations(PROP, ['contracts.c13_fmt'], ['ak.ppobj'])
    b = Bounded(PROP, 'harness.c13')
    driver.run(b)
    sz = driver.sizes(b.tier)
    nd = len(driver.descriptors())
    cov = b.coverage(
        rule=f"tables brought to a life point by a history of operations (str(), ch_text() consumed / partly "
             f"consumed, fmt setter, remove_columns), then s = str(table.fmt) fed to the setter, to the "
             f"constructor and compared with the configured columns / limits. "
             f"(1, exhaustive) all {nd} column descriptions {{plain field, enum field x modifier None/val/name/full}} "
             f"x width {{default, 0, 1, 5, 0-3, 2-8, 1-999}} x break-by, next to a fixed column x limits "
             f"{driver.LIMS} given by fmt and by argument x 2 record sets x 10-12 life points (fresh; str; ch_text; "
             f"partial ch_text; setter before/after printing; remove_columns before/after printing; limits-only "
             f"setter after printing); "
             f"(1c, exhaustive) tables with more table lines (records + break-by lines) than the default record "
             f"limits 30:20 would show: {len(driver.MANY_COLS)} column sets (ranged / fixed / break-by) x "
             f"{driver.NREC_MANY_THOROUGH if sz['pairs'] else driver.NREC_MANY} records x limits "
             f"{driver.LIMS_MANY} (never given / off / equal to / above the default / small) given by fmt and by "
             f"argument{'' if sz['pairs'] else ' (by argument: ' + str(driver.ARG_LIMS_MANY_QUICK) + ')'} x the same "
             f"life points; "
             + (f"(2, exhaustive) all {nd * nd} ordered pairs of descriptions (repeated fields included) x 3 limits x 3 "
                f"printed life points; " if sz['pairs'] else "")
             + f"(3, seeded random.Random('C13:seed:chunk'), {sz['random']} cases) 1-4 fields (plain / enum / bounded "
             f"type), 1-4 (thorough 1-5) columns with repeated and hidden (':-1' or unlisted) fields, 0-8 records, "
             f"limits, header/footer, tuple / namedtuple / attribute records, histories of 0-4 random steps; "
             f"(3b, seeded random.Random('C13:seed:many:chunk'), {sz['random_many']} cases) the same with 45-140 records "
             f"and limits around the default ones. "
             f"non-trivial = a ranged column was rendered before the format was serialised",
        exhaustive=False,
        extra={'families': {'1_single_descriptor': 'exhaustive',
                            '2_descriptor_pairs': 'exhaustive' if sz['pairs'] else 'not run in this tier',
                            '1c_more_lines_than_default_limits': 'exhaustive',
                            '3_random': 'seeded', '3b_random_many_records': 'seeded'}})
    cov.update(ppart)
    _seen, _viol = set(), []
    for _v in pv + b.violations():
        if _v.key not in _seen:
            _seen.add(_v.key)
            _viol.append(_v)
    return finish(PROP, 'exploration', _viol, pu, pe + b.errors, cov, passumed +
                  ["field names avoid the punctuation of the format (, : ; / ! < - ( )), have no leading/trailing "
                   "blanks and are not the special value '*'",
                   "configured min <= max; at least one visible column at every life point",
                   "the constructor gets the same fields / field types / titles / header / footer as the original "
                   "table (value paths of 'enhanced' formats are not part of str(table.fmt); records are tuples "
                   "with fields=[...], namedtuples, or objects whose attributes are named as the fields)",
                   "record limits are compared whenever they affect the rendering of the table's records (a limits "
                   "section that hides nothing may be dropped from the format string); limits never specified are "
                   "not compared",
                   "'same rendering' = equal no-colour text, against an identically built twin table that was left "
                   "alone (rendering a table is itself a step of its life)",
                   "bounded: <= 140 records, <= 5 columns, histories of <= 4 steps"],
                  t0)
