"""C09 - emitted escape sequences are well-formed, self-contained and strippable."""
from checks._proof import run_proof_check

PROP = 'C09'


def run():
    return run_proof_check(
        PROP, ['contracts.c09_color_seq'], ['ak.color'], level='proof', harness='harness.c09',
        bounded_rule="all 504 colour values x fg/bg x sampled effect sets, fg+bg pairs, multi-chunk texts without ESC, "
                     "invalid-value table: well-formedness, strip round trip, no_color, bytes, ValueError "
                     "(validation of the assumed re.sub / terminal semantics; non-trivial = coloured and non-empty)")
