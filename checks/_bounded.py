"""Shared body of the checks that (so far) consist of a bounded driver only."""
import importlib
import time
import traceback

from vlib.common import finish
from vlib.bounded import Bounded


def run_bounded_check(prop, harness, rule, assumptions, exhaustive=False):
    t0 = time.time()
    b = Bounded(prop, harness)
    hm = importlib.import_module(harness)
    try:
        hm.run(b)
    except Exception:      # noqa
        b.error(f"bounded driver {harness} crashed: {traceback.format_exc().strip().splitlines()[-1]}")
    cov = b.coverage(rule, exhaustive=exhaustive)
    return finish(prop, 'exploration', b.violations(), [], b.errors, cov, list(assumptions), t0)
