"""C14 - syntax colours resolve by inheritance, independent of registration order (bounded driver)."""
import time

from vlib.common import finish
from vlib.bounded import Bounded
from harness import c14 as driver
from checks._proof import proof_subobligations

PROP = 'C14'


def run():
    t0 = time.time()
    pv, pu, pe, ppart, passumed = proof_subobligations(PROP, ['contracts.c14_colors'], ['ak.color'])
    b = Bounded(PROP, 'harness.c14')
    driver.run(b)
    s_descr, n_vp, c_grid, c_names, n_m = driver.describe(b.tier)
    cov = b.coverage(
        rule="description sets rendered from a feature grid (parent in {none, unknown id, built-in id, every earlier "
             "id} x fg/bg in {unset, '-', name, int code, rgb text, gray} x modifiers in {none, bold, no_bold, "
             "bold+underline, no_bold+blink}); for every set EVERY history = every subset as the initial "
             "configuration in every dict order x every ordering and batching of the remaining items into later "
             "registrations (2 / 8 / 48 / 384 histories for 1 / 2 / 3 / 4 ids); dict form (flat / nested), "
             "registration mechanism (add_new_items, palette of a component, register_in_colors_conf, "
             "PaletteUser._mk_palette, one PARENT_PALETTES chain) and local/global-config mode rotate "
             "deterministically over the histories; formatters and palettes are observed after the constructor and "
             f"after every registration. Space S (structure, reduced grid of 8 fg/bg/modifier entries): {s_descr}. "
             f"Space V (values): one id X over the full 180-entry grid, alone with each parent kind and as child of "
             f"P.Q for {n_vp} descriptions of P.Q, every history also with no_color=True (other spaces: the "
             f"all-in-configuration history and every 4th history). Space C (conflicts): an id from {c_names} "
             f"described twice ({c_grid} grid entries, d_a != d_b) or once against its built-in default, with and "
             "without a child, every history that keeps the two descriptions in different dicts, compared with the "
             "same history without the losing registrations. Space M (modifier table): every keyword of the "
             "documented table (bold, faint, underline, blink, crossed and their no_ forms), alone, in pairs of "
             "different effects and in whole combinations, on top of a parent P.Q that switches all effects on / "
             "all off / none / a mix (or that carries one keyword, all 10 x 10), with a grandchild that inherits or "
             f"switches back, and in a single description without / with unknown / with built-in parent: {n_m} "
             "sets, every history, also with no_color=True. Ids of the 'P.T.B', 'P.T.C.N', 'P.A', 'M' naming are "
             "groups inside groups in the nested form ({'P': {'T': {'B': .., 'C': {'N': ..}}, 'A': ..}}); every "
             "history of those sets is run twice, with every dict (initial configuration, SYNTAX_DEFAULTS of "
             "components) in either form. evaluations = histories executed; distinct = "
             "description sets; non-trivial = a set in which some id has a registered parent (chain length >= 2), "
             "every set being run with >= 1 later registration",
        exhaustive=True, extra=ppart)
    seen = set()
    viol = []
    for v in pv + b.violations():
        if v.key not in seen:
            seen.add(v.key)
            viol.append(v)
    return finish(PROP, 'exploration', viol, pu, pe + b.errors, cov, passumed + [
                   "pre-condition: descriptions are generated from the documented grammar "
                   "'[PARENT:][FG[/BG]][:modifiers]' and reference only earlier ids, an unknown id or a built-in id "
                   "(acyclic, syntactically valid)",
                   "ColorFmt(fg, bg_color=bg, **mods) is the reference formatter (its own contract is C09)",
                   "formatters are compared through the prefix/suffix of str(fmt('@'))",
                   "the built-in defaults are read from ColorsConfig.BUILT_IN_CONFIG and count as registered at "
                   "construction, after the explicit configuration",
                   "supporting only (diagnostics): fallback of unregistered ids to the default-text id; first "
                   "registration wins among components and against built-in defaults",
                   "bounded: at most %d ids per description set" % (4 if b.tier == 'thorough' else 3)], t0)
