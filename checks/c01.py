"""C01 - every parse result is a valid derivation of the user's grammar."""
import time

from vlib.common import finish
from vlib.bounded import Bounded
from harness import c01 as driver
from checks._proof import proof_subobligations

PROP = 'C01'


def run():
    t0 = time.time()
    pv, pu, pe, ppart, passumed = proof_subobligations(PROP, ['contracts.c01_stack'], ['ak.llparser'])
    b = Bounded(PROP, 'harness.c01')
    driver.run(b)
    quick = b.tier == 'quick'
    n = 4 if quick else 5
    stats = b.notes.get('stats', {})
    cov = b.coverage(
        rule="case = one grammar (plain tuple productions, ordered alternatives) under one of 9 tokenizer "
             "configurations (single-character tokens; synonyms + keywords + comments, two terminal choices; "
             "explicit skip_tokens with 'SPACE' as an ordinary terminal; 2 configurations - family kwonsyn - in "
             "which keyword entries are keyed by a SYNONYM name: two regex groups renamed to one token NAME / LTR "
             "with keywords ('NAME','let')->LET, ('NAME','in')->IN resp. ('LTR','k'|'K')->KEY, the plain token and "
             "the keywords made of it all being terminals of the grammar, token value = text of the named group "
             "which for back-quoted identifiers is a part of the token text; 3 configurations - family kwother - in "
             "which a token of ANOTHER kind carries exactly a keyword's text and must keep its own name: quoted strings "
             "\"if\" / 'if' (named group without the quotes, renamed STR) and variables $if next to ('WORD','if')->IF; "
             "escaped characters ~k / @0 (renamed ESC) next to ('LTR','k')->KEY, ('DIG','0')->NIL and a letter z next to "
             "('ESC','z')->EZ; the same text being a keyword of two kinds, ('LTR','k')->KEY and ('ESC','k')->EKEY), "
             "one of 3 non-terminal name sets, empty "
             "production written None or (); each case = both smart_factorization settings x every token string "
             f"of length <= {n} over the grammar's 2-3 terminals (text rendered from the token list with seeded "
             "token texts / separators / comments, so the expected yield is known by construction). Grammar "
             "families: exh1 = every grammar with 1 non-terminal, <= 3 ordered alternatives, RHS <= 2 (all); "
             "exh2 = every grammar with 2 non-terminals, <= 2 alternatives each, RHS <= 2 over {a,b,E,X} "
             f"({'5 % seeded sample' if quick else 'all'}); prefix = E -> P alpha_1|..|P alpha_k, alpha over {{a,b,X}} "
             "of length <= 2, P in {a, X, a b}, 5 definitions of X (plain, nullable, own prefix group, nullable "
             f"list), optionally wrapped in S -> E b | E (k=2 all, k=3 {'10 %' if quick else '60 %'}"
             f"{'' if quick else ', k=4 3 %'}); rollback = E -> 2-3 alternatives starting with different "
             f"non-terminals with overlapping FIRST sets x 5x5 definitions of X, Y ({'10 %' if quick else '70 %'}); "
             f"nested3 = 3 terminals, E -> a beta_i, 3-4 remainders from a prefix-closed pool "
             f"({'3 %' if quick else '25 %'}); random = {2000 if quick else 20000} seeded grammars with <= 4 "
             "non-terminals, <= 4 alternatives, <= 4 symbols, biased to shared prefixes and empty alternatives; "
             "seq = Q = ProdSequence(a | a,b | a,Z), E -> 2-3 ordered alternatives from a pool of 12 that use Q (or "
             "Y -> Q b | Q) behind 0-2 leading symbols and before different terminators, so that Q is matched, rolled "
             f"back and parsed again at a later token ({'15 %' if quick else '60 %'}); "
             "kwonsyn = the families above once more under each of the 2 keyword-on-synonym configurations (exh1 all, "
             f"exh2 {'1 %' if quick else '10 %'}, prefix k=2 {'10 %' if quick else '50 %'}, k=3 {'0.5 %' if quick else '10 %'}, "
             f"rollback {'0.5 %' if quick else '10 %'}, nested3 {'0.2 %' if quick else '3 %'}, seq {'1 %' if quick else '10 %'}, "
             f"{150 if quick else 3000} random); "
             "kwother = the same under each of the 3 other-kind-carries-keyword-text configurations (exh1 "
             f"{'50 %' if quick else 'all'}, exh2 {'0.3 %' if quick else '5 %'}, prefix k=2 {'3 %' if quick else '30 %'}, "
             f"k=3 {'0.2 %' if quick else '5 %'}, rollback {'0.2 %' if quick else '5 %'}, nested3 "
             f"{'0.1 %' if quick else '2 %'}, seq {'0.3 %' if quick else '5 %'}, {90 if quick else 2000} random). "
             "Call sequences on one parser object: all inputs of a grammar are parsed by the same two parsers; in "
             f"addition, after {'every 4th (by CRC-32 of the text)' if quick else 'every'} first parse that returns a "
             "(correct) tree the session is continued: the returned tree is edited in place (one of parser.cleanup(tree) "
             "= the documented in-place cleanup / overwritten by the harness: nodes renamed, child lists emptied / both), "
             "the SAME text is parsed raw again, then with do_cleanup=True, then raw again; both repeated raw trees are "
             "checked by the same oracle (failure class 'on-reparse'). "
             "evaluations = grammars + parse calls (first and repeated). non-trivial = grammar accepted by the constructor, >= 1 input "
             "returns a tree and >= 1 input is rejected with ParsingError",
        exhaustive=False,
        extra={'per_family': stats, 'diagnostic_counts_by_category': b.notes.get('diag_counts', {})})
    cov.update(ppart)
    _seen, _viol = set(), []
    for _v in pv + b.violations():
        if _v.key not in _seen:
            _seen.add(_v.key)
            _viol.append(_v)
    return finish(PROP, 'exploration', _viol, pu, pe + b.errors, cov, passumed +
                  ["productions are plain tuples / None, plus ProdSequence templates in the 'seq' family (one node whose "
                   "value is the list of element nodes: flattened for the yield, elements must be symbols of the "
                   "template); no ListProds / MapProds / AnyTokenExcept templates",
                   "no span_matchers (multi-line span tokens) in the tokenizer configurations",
                   "grammars rejected by the constructor (any exception) and parse calls that raise or exceed "
                   f"{driver.PARSE_BUDGET_S} s CPU are skipped: rejection and termination are C02/C03's business",
                   "a childless non-terminal node may carry value None or []",
                   "the expected token list relies on regular expressions (library `re`) matching the 9 fixed "
                   "tokenizer patterns as written; every rendered text is cross-checked against a reference tokenizer "
                   "written from the constructor's documentation (token name = synonym of the matching group's name if "
                   "it has one; then keywords[(token name, value)] if listed - the key of a keyword entry is the token "
                   "name AFTER synonyms; value = text of the named group; line breaks and white space at the end of a "
                   "line are no tokens)",
                   "'both smart_factorization settings return the same tree' (DESIGN section 6, not in the property "
                   "statement) and 'only one setting returns a tree' are supporting diagnostics, not violations: on the "
                   "unchanged tree the two settings choose different, equally valid derivations for some ambiguous "
                   "grammars (e.g. E -> Y b | Y | X a; X -> a; Y -> a | a a on 'a a')",
                   "call sequences: only repetitions of the SAME text on the same parser with the edits of the returned "
                   "tree named in the rule (cleanup / overwrite) and do_cleanup alternating False, False, True, False; "
                   "src_name, debug and start_symbol_name are left at their defaults; trees returned with "
                   "do_cleanup=True are not examined (the statement is about the tree before cleanup); a repeated call "
                   "that raises although the first returned a tree is a supporting diagnostic (acceptance: C02)",
                   f"bounded: inputs of at most {n} tokens; grammar sizes as in the rule"], t0)
