"""Shared body of the checks whose deciding tier is the proof tier (pyvc), optionally followed by
a bounded complement driver (run-time contracts; never counted as proved)."""
import importlib
import time

from vlib.common import finish, tier, seed, Violation
from vlib.bounded import Bounded
from pyvc import propcheck


def kind_sig(v):
    if isinstance(v, dict):
        for k, n in (('__tuple__', 'tuple'), ('__set__', 'set'), ('__dict__', 'dict'), ('__bytes__', 'bytes'),
                     ('__class__', 'obj'), ('__opaque__', 'opaque'), ('__type__', 'class')):
            if k in v:
                if n == 'tuple':
                    return 'tuple(' + ','.join(kind_sig(x) for x in v[k]) + ')'
                if n == 'obj':
                    return v['__class__'].split(':')[-1]
                return n
        return 'dict'
    if isinstance(v, list):
        return 'list(' + ','.join(kind_sig(x) for x in v) + ')'
    if v is None:
        return 'none'
    return type(v).__name__


def default_classify(skip=('self', 'cls')):
    def classify(oid, attempt):
        if attempt is None:
            return oid
        out = (attempt.get('native') or {}).get('outcome')
        what = out[1] if out and out[0] == 'raise' else 'wrong-result'
        sig = ','.join(f"{k}:{kind_sig(v)}" for k, v in sorted((attempt.get('inputs') or {}).items())
                       if k not in skip)
        return f"{oid}:{what}:{sig}"
    return classify


def _bound_label(b):
    return b if isinstance(b, str) else f"container sizes 0..{b}, contents symbolic"


def run_proof_check(prop, contract_modules, source_modules, *, level='proof', classify=None, harness=None,
                    bounded_rule=None, extra_assumptions=(), checker_note='', bounded_exhaustive=False):
    t0 = time.time()
    pr = propcheck.run_proof_tier(prop, contract_modules, source_modules, classify or default_classify())
    violations, undecided, errors = list(pr['violations']), list(pr['undecided']), list(pr['errors'])
    obs = pr['obligations']
    bs_funcs = {}
    for cm in pr['cms']:
        bs_funcs.update(getattr(cm, 'BOUNDED_SYMBOLIC', {}))
    table = propcheck.obligations_table(obs)
    # syntactic obligations (AST scans of the real source) take part like any other obligation
    static = pr.get('static', {})
    for oid, so in sorted(static.items()):
        if so['status'] == 'refuted':
            cm = importlib.import_module(so['contract_module'])
            hook = getattr(cm, 'static_replay', None)
            confirmed, replay = (False, {'kind': 'static-obligation', 'detail': so['detail']})
            if hook is not None:
                try:
                    confirmed, replay = hook(oid, so['detail'])
                except Exception as e:      # noqa
                    replay = {'kind': 'static-obligation', 'detail': so['detail'], 'replay_error': repr(e)}
            text = f"syntactic obligation fails on the current source: {so['detail']}"
            violations.append(Violation(prop, oid, oid, text, replay, bool(confirmed)))
    proved = [o for o in table if obs[o['id']]['function'] not in bs_funcs]
    proved += [{k: v for k, v in so.items() if k not in ('contract_module',)} for _, so in sorted(static.items())]
    bsym = [dict(o, bound=_bound_label(bs_funcs[obs[o['id']]['function']]))
            for o in table if obs[o['id']]['function'] in bs_funcs]
    coverage = {
        'obligations': len(proved), 'discharged': len([o for o in proved if o['status'] == 'discharged']),
        'checker_cmd': f"/verif/check {prop}  (pyvc: VCs generated from the AST of the real source under /repo on "
                       f"every run; z3 5.1.0 python API, /usr/bin/cvc5 --strings-exp for z3 'unknown') {checker_note}",
        'trusted_base': [
            "pyvc VC generator (validated per run: CPython cross-check on concrete inputs, canaries)",
            "z3 5.1.0 / cvc5 1.0.3 'unsat' answers",
            "python ints are mathematical integers; str = sequence of code points (z3 chars U+0000..U+2FFFF); "
            "dict preserves insertion order; floats not modelled",
        ] + pr['assumed'] + list(extra_assumptions),
        'functions_under_contract': pr['functions'],
        'per_obligation': proved,
        'bounded_symbolic': bsym,
        'instances_discharged': sum(o['unsat'] for o in obs.values()),
        'solver_time_s': round(sum(o['time_s'] for o in obs.values()), 2),
        'timing': pr['timing'], 'canaries': pr['canaries'], 'engine_crosscheck': pr['crosscheck'],
        'native_sampling_of_contracts': pr.get('native_sampling', []),
        'diagnostics': pr['diagnostics'], 'extraction_dropped': pr['dropped'],
        'samples': [o['id'] for o in table[:8]],
    }
    assumptions = pr['assumed'] + list(extra_assumptions)
    if harness is not None:
        b = Bounded(prop, harness)
        hm = importlib.import_module(harness)
        try:
            hm.run(b)
        except Exception as e:      # noqa
            import traceback
            errors.append(f"bounded driver {harness} crashed: {traceback.format_exc().strip().splitlines()[-1]}")
        seen = {v.key for v in violations}
        for v in b.violations():
            if v.key not in seen:
                violations.append(v)
        errors.extend(b.errors)
        cov_b = b.coverage(bounded_rule or getattr(hm, 'RULE', 'see harness module'), exhaustive=bounded_exhaustive)
        coverage['bounded_complement'] = cov_b
        # the exploration-style keys are given too (a bounded part exists)
        coverage['evaluations'] = cov_b['evaluations']
        coverage['distinct_nontrivial'] = cov_b['distinct_nontrivial']
        coverage['rule'] = cov_b['rule']
        if cov_b['samples']:
            coverage['samples'] = cov_b['samples']
        assumptions = assumptions + list(getattr(hm, 'ASSUMPTIONS', []))
    if level != 'proof':
        coverage['explanation'] = (
            f"{coverage['discharged']} of {coverage['obligations']} proof-tier obligations discharged for all inputs "
            f"(unbounded); {len(bsym)} bounded-symbolic obligations and the bounded complement driver are labelled "
            f"bounded and not counted as proved")
    return finish(prop, level, violations, undecided, errors, coverage, assumptions, t0)


def proof_subobligations(prop, contract_modules, source_modules, classify=None):
    """proof tier for properties whose top-level statement is decided by a bounded driver: returns
    (violations, undecided, errors, coverage-part, assumptions).  The coverage part lists the discharged
    sub-obligations separately; they are never mixed into the bounded counts."""
    pr = propcheck.run_proof_tier(prop, contract_modules, source_modules, classify or default_classify())
    obs = pr['obligations']
    bs_funcs = {}
    for cm in pr['cms']:
        bs_funcs.update(getattr(cm, 'BOUNDED_SYMBOLIC', {}))
    table = propcheck.obligations_table(obs)
    violations = list(pr['violations'])
    static = pr.get('static', {})
    for oid, so in sorted(static.items()):
        if so['status'] == 'refuted':
            violations.append(Violation(prop, oid, oid, f"syntactic obligation fails: {so['detail']}",
                                        {'kind': 'static-obligation', 'detail': so['detail']}, False))
    proved = [o for o in table if obs[o['id']]['function'] not in bs_funcs]
    proved += [{k: v for k, v in so.items() if k != 'contract_module'} for _, so in sorted(static.items())]
    bsym = [dict(o, bound=_bound_label(bs_funcs[obs[o['id']]['function']]))
            for o in table if obs[o['id']]['function'] in bs_funcs]
    part = {
        'proved_subobligations': {
            'obligations': len(proved), 'discharged': len([o for o in proved if o['status'] == 'discharged']),
            'per_obligation': proved, 'bounded_symbolic': bsym,
            'functions_under_contract': pr['functions'],
            'external_contracts_used': pr.get('external_contracts_used', []),
            'instances_discharged': sum(o['unsat'] for o in obs.values()),
            'solver_time_s': round(sum(o['time_s'] for o in obs.values()), 2),
            'timing': pr['timing'], 'canaries': pr['canaries'], 'engine_crosscheck': pr['crosscheck'],
            'native_sampling_of_contracts': pr.get('native_sampling', []),
            'diagnostics': pr['diagnostics'],
            'checker': "pyvc: VCs generated from the AST of the real source under /repo on every run; z3 5.1.0, cvc5 for unknowns",
        }}
    return violations, list(pr['undecided']), list(pr['errors']), part, list(pr['assumed'])
