"""C05 - list / map / sequence templates return exactly the denoted items."""
import time

from vlib.common import finish
from vlib.bounded import Bounded
from harness import c05 as driver

PROP = 'C05'


def run():
    t0 = time.time()
    b = Bounded(PROP, 'harness.c05')
    driver.run(b)
    quick = b.tier == 'quick'
    cov = b.coverage(
        rule=("(1) level 1, enumerated: every legal option combination of one ListProds (brackets x delimiter x "
              "allow_final_delimiter None/True/False x optional None/True/False x nullable item) and of one MapProds "
              "(brackets x allow_final_delimiter default/True/False x optional x nullable value), and ProdSequence "
              "over terminals / a tree node / a bracketed list or map; each as E->(C), E->(C NUMBER) and E->(C C), item symbol given directly / as a "
              "choice symbol / through a chain of two symbols, with and without self recursion; data = every "
              f"container of length 0..3 over <= 2 leaf atoms + empty item ({'length 0..2 outside E->(C)/choice; ' if quick else ''}"
              "every key pattern with a repeated key for maps) + length 1..2 with nested [] / [x] / absent entries. "
              f"(2) {b.notes.get('nested_schemas')} seeded nested grammars (containers of up to 3 levels: bracketed and "
              "bracket-less lists and maps, sequences, '<' X '>' wrapper nodes, optional containers, self recursion) x "
              f"{'10' if quick else '16'} seeded data trees of depth <= 3, lengths 0..3. Every data item is rendered "
              "without final delimiters, with all / one allowed final delimiter(s), and with one final delimiter that "
              "is not allowed (expected ParsingError); each token list is laid out compactly and with seeded fillers "
              "(blanks, tabs, newlines, // and /* */ comments holding brackets and delimiters). "
              "non-trivial = the data holds a container nested in a container"),
        exhaustive=False,
        extra={'notes': dict(b.notes)})
    return finish(PROP, 'exploration', b.violations(), [], b.errors, cov, [
        "grammars are restricted to a family in which every text has one reading: alternatives of one item position "
        "open with different tokens; a bracket-less container or a sequence is used only as the top symbol, as the "
        "only value alternative of a map, inside a '<' X '>' node, or as the only item alternative of a bracketed "
        "list with another delimiter and allow_final_delimiter off",
        "empty slot of a nullable item = item None; with an empty last slot the last delimiter is the final "
        "delimiter when it is allowed (no extra item) and separates one more None item when it is not allowed "
        "(so no rejection is demanded there); no delimiter and no item = empty list",
        "a list of exactly one empty item is generated only when the final delimiter is allowed (text '[,]')",
        "items that derive the empty string without being None (bracket-less container, sequence) are used as list "
        "items only where allow_final_delimiter is off (the text '[a;]' is then [[a],[]]); with it on, the "
        "statement does not say which reading wins",
        "repeated map key: the dict position of the key may be that of its first or of its last occurrence",
        "names of tree elements are compared only for the elements of a sequence; elements of a sequence that are "
        "not containers are compared by symbol name and by the values of their leaves",
        "E->(C C) with a bracket-less C: only delimited lists of non-nullable items, both non-empty (unique split); "
        "no rejection is demanded for a delimiter after the first of the two (it joins them)",
        "a grammar of the family that the LLParser constructor refuses is reported as a diagnostic and not explored "
        "(checker error when more than 10 % are refused); sequences never have nullable elements",
        "bounded: nesting depth <= 3, container length <= 3, token alphabet of 6 words / 3 numbers / 5 keys",
    ], t0)
