"""C11 - pretty-printed JSON-like data reads back as the same data."""
import time

from vlib.common import finish
from vlib.bounded import Bounded
from harness import c11 as driver
from checks._proof import proof_subobligations

PROP = 'C11'


def run():
    t0 = time.time()
    pv, pu, pe, ppart, passumed = proof_subobligations(PROP, ['contracts.c11_literals'], ['ak.ppobj', 'ak.color'])
    b = Bounded(PROP, 'harness.c11')
    driver.run(b)
    if b.tier == 'quick':
        sweep = ("L = every 11th value in 8..429 (7 chain wrappers d^k / l^k) or {8, 120, 429} (the 22 other "
                 "wrappers), then bisected to the observed one-line <-> multi-line flip and every L within 6 of it "
                 "(i.e. offset + L in 193..206 on the unchanged tree); wrapped lists L = 330..330+w+8 (every phase "
                 "of the line boundary against the per-line threshold; all widths for chain wrappers, int1/str7/"
                 "int30/mix for the others) and 900")
        eleph = "146..154 / 210"
        rnd = "4 000 seeded random values per mode"
        colors = ("16-17 core values (all leaf kinds, one-line, multi-line, wrapped, nested) under every "
                  "specification, 92 further values (tiny scope, flat containers L = 190/210/340 at offsets 0 and 4, "
                  "side-by-side, wide element, 24 random) each under 7 specifications rotating through all of them")
    else:
        sweep = ("chain wrappers: every L in 8..520 and 900; the 22 other wrappers: every L in 150..260 and 330..370, "
                 "every 7th L elsewhere in 8..520, 900, and every L within 6 of the observed flip")
        eleph = "144..156 / 198 / 210 / 400"
        rnd = "30 000 seeded random values per mode"
        colors = ("every specification x (every 5th value of the tiny scope, flat containers of 10 lengths 60..520 "
                  "under every 3rd wrapper, side-by-side, wide element, 200 random values)")
    cov = b.coverage(
        rule=f"each case = (value, mode in {{json, python}}). Values by structure: a flat target container "
             f"(list | dict with string keys | dict with int keys [python mode]) of simple elements (ints / strings "
             f"of rendered width 1,3,7,30, or a mix of str/int/float/bool/None/[]/{{}}) built so that its one-line "
             f"rendering is exactly L wide, element 0 absorbing the remainder; placed at nesting offset 0,2,4,6 by "
             f"wrappers = every d/l path (dict value / list element) of depth 0..3, with and without siblings; "
             f"{sweep}; lists with one element {eleph} wide at first/middle/last position among 0..40 small ones; "
             f"4 containers of length L-1..L+2 side by side in a list / dict around the threshold; all values of a "
             f"tiny scope (pool of 10 scalars, lists <= 2, dicts <= 2 keys, one more level); {rnd} of depth <= 4 "
             f"(flat containers tuned to 140..215 columns, tricky strings, non-ASCII, boundary floats/ints, int and "
             f"mixed keys in python mode). Every value is printed under each way of consuming the result: whole "
             f"text (plain_text / str), lines converted as they are yielded, list(result) of a fresh result with "
             f"the kept lines converted (plain_text and str) only after the iteration finished, and two iterators "
             f"of one result advanced alternately with their lines converted at the end. "
             f"Colour dimension: case = (value, mode, colour specification); the 72 specifications are all "
             f"combinations of palette (omitted | None | PPPalette class | a user's subclass | ready-made object of "
             f"PPPalette / of the subclass / made from a custom ColorsConfig / synced | object made with "
             f"no_color=True | object made from a no-colour config) x colors_conf (omitted | None | fresh "
             f"ColorsConfig | custom colours | ColorsConfig(no_color=True) | custom colours with no_color=True) x "
             f"no_color (True | omitted | False | None) that are documented calls (a ready palette object excludes "
             f"colors_conf) and ask for no colours in at least one documented way (no_color=True, a no-colour "
             f"palette object, a no-colour config); there str(result) - the text as printed - must read back, as "
             f"well as plain_text(); {colors}. "
             f"non-trivial = the output has more than one line",
        exhaustive=False,
        extra={'clauses': ['C11.json_roundtrip', 'C11.python_roundtrip', 'C11.sorted_keys',
                           'C11.elements_preserved', 'C11.lines_equal_whole'],
               'tasks': b.notes.get('tasks')})
    cov.update(ppart)
    _seen, _viol = set(), []
    for _v in pv + b.violations():
        if _v.key not in _seen:
            _seen.add(_v.key)
            _viol.append(_v)
    return finish(PROP, 'exploration', _viol, pu, pe + b.errors, cov, passumed +
                  ["strings contain no double quote, single quote, backslash or control character (statement); "
                   "floats are finite (inf/nan are not JSON-like data and str() of them is no literal)",
                   "JSON mode is exercised with string dict keys only; python mode with string and int keys "
                   "(bool/None/float keys are not generated)",
                   "sorted_keys is demanded for dicts whose keys are mutually comparable (all str or all int: "
                   "Python's sorted()); for mixed str/int keys only the round trip is demanded",
                   "equality is type-aware (1, 1.0, True distinct); floats compare with == (sign of zero not "
                   "demanded)",
                   "json.loads and ast.literal_eval (stdlib) are the JSON parser / Python literal evaluator of "
                   "the statement",
                   "tuples and other non-JSON values are outside the statement and not generated",
                   "'no-color output' = output of a call that asks for no colours in a documented way: no_color=True "
                   "(whatever palette class / palette object / colors_conf accompanies it), a palette object created "
                   "with no_color=True or from ColorsConfig(no_color=True), or colors_conf=ColorsConfig(no_color=True); "
                   "a ready palette object together with colors_conf is a documented error and is not generated",
                   "bounded: containers up to ~520 columns of one-line rendering, depth <= 4 (+3 wrapper levels)"],
                  t0)
